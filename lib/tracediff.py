"""Diff between the state/api TLC expected and what the harness logged (for MISMATCH reports)."""
import json, re

def canon_state(p):
    """Bring a logged post state into the canonical form TLC prints (id maps as sorted lists,
    leaves of Multi/Composite sorted by a stable key)."""
    p = json.loads(json.dumps(p))
    def sortpairs(x):
        return sorted([list(e) for e in x])
    if 'idm' in p:
        for k in ('res', 'set', 'ann'):
            p['idm'][k] = sortpairs(p['idm'].get(k, []))
    for s in p.get('sets', []):
        s['kidm'] = sortpairs(s.get('kidm', []))
        s['didm'] = sortpairs(s.get('didm', []))
    for a in p.get('anns', []):
        if a.get('kind') in ('Multi', 'Composite'):
            a['leaves'] = sorted(a['leaves'], key=lambda l: json.dumps(l, sort_keys=True))
    return p

def diff(exp, got, path=''):
    """list of (path, expected, got) for differing leaves"""
    out = []
    if isinstance(exp, dict) and isinstance(got, dict):
        for k in sorted(set(exp) | set(got)):
            if k not in exp:
                out.append((f'{path}.{k}', '<absent>', got[k]))
            elif k not in got:
                out.append((f'{path}.{k}', exp[k], '<absent>'))
            else:
                out += diff(exp[k], got[k], f'{path}.{k}')
    elif isinstance(exp, list) and isinstance(got, list):
        if len(exp) != len(got) or not all(isinstance(x, (dict, list)) for x in exp + got):
            if exp != got:
                out.append((path, exp, got))
        else:
            for i, (e, g) in enumerate(zip(exp, got)):
                out += diff(e, g, f'{path}[{i+1}]')
    else:
        if exp != got:
            out.append((path, exp, got))
    return out

MIS = re.compile(r'^<<"MISMATCH", (\d+), (".*")>>\s*$')

def parse_tlc_output(text):
    """yield (line_no, expected_record) for every MISMATCH line"""
    for line in text.splitlines():
        m = MIS.match(line)
        if m:
            yield int(m.group(1)), json.loads(json.loads(m.group(2)))
