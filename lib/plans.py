"""What each check runs. A plan is a list of jobs; every verdict comes from a TLC run."""
import json, os

from tlc import *
from engine import *
from engine import MUTATING

STORE_INVS = ['InvIndexExact', 'InvIndexChrono', 'InvKeyData', 'InvNoDangling', 'InvIdMap', 'InvTsel', 'InvTombs', 'InvProtected']

STORE_ASSUMPTIONS = [
    'TLC, SANY and the CommunityModules Json/IOUtils overrides are trusted',
    'the harness projection (harness/src/project.rs, observe.rs) reports the store faithfully; it is checked by the '
    'selftest (corrupting a logged field is rejected)',
    'identifiers, keys and values are drawn from the concretisation pools of harness/src/concretise.rs',
    'bounded: histories of the listed depth over the listed menus; longer histories are sampled (simulate), not enumerated',
]


def mc_job(name, scenario, size='s', maxanns=3, maxres=1, prelude=0, workers=8, timeout=1500, **kw):
    c = dict(MaxRes=maxres, MaxSets=1, MaxAnns=maxanns, MaxData=2, MaxKeys=2, Depth=100, Scenario=scenario, Size=size,
             Prelude=prelude, Reads=[], DevShift=False, EmitAll=False, P1=0, P2=0)
    c.update(kw)
    return dict(kind='mc', name=name, module='MC_Store.tla', constants=c, invariants=STORE_INVS, properties=['Monotone'],
                constraint='Bounded', view='View', workers=workers, timeout=timeout)


def gen_job(name, scenario, prelude, depth=None, simulate=None, simdepth=None, size='s', style=0, reads=(), env=None,
            per_state=None, sample_mod=1, roundtrips=None, validation=False, **kw):
    c = dict(Scenario=scenario, Prelude=prelude, Size=size, Reads=list(reads))
    c.update(kw)
    return dict(kind='store_gen', name=name, constants=c, depth=depth, simulate=simulate, simdepth=simdepth, style=style,
                env=env or {}, per_state=(bool(reads) and not simulate) if per_state is None else per_state, sample_mod=sample_mod,
                roundtrips=roundtrips, validation=validation)


def cfg_env(milestone=None, shrink=False):
    e = {}
    if milestone is not None:
        e['VERIF_MILESTONE'] = str(milestone)
    if shrink is not None and shrink is not False:
        e['VERIF_SHRINK'] = '1' if shrink else '0'
    elif shrink is False and milestone == 'noshrink':
        e['VERIF_SHRINK'] = '0'
    return e


def store_jobs(prop, tier, seed):
    style = seed % 5
    quick = tier == 'quick'
    jobs = []
    reads = {'C03': ['lookup'], 'C04': ['offsets'], 'C12': ['bytes']}.get(prop, [])
    light = {'C03': ['lookup'], 'C04': ['anntext'], 'C12': ['bytes']}.get(prop, [])
    big = dict(MaxAnns=10, MaxRes=3, MaxData=4)
    if quick:
        jobs.append(mc_job('mc_complex_small', 'complex', maxanns=2))
        jobs += [gen_job('core_p1', 'core', 1, depth=2, style=style),
                 gen_job('complex_p2', 'complex', 2, depth=2, style=style, reads=light),
                 gen_job('remove_p4', 'remove', 4, depth=3, style=style),
                 gen_job('remove_p5', 'remove', 5, depth=2, style=(style + 1) % 5, reads=light, **big),
                 gen_job('remove_p6', 'remove', 6, depth=2, style=(style + 1) % 5, reads=light, **big),
                 gen_job('all_p5', 'all', 5, depth=1, style=(style + 2) % 5, reads=reads, **big),
                 gen_job('all_p6', 'all', 6, depth=1, style=(style + 3) % 5, reads=reads, **big),
                 gen_job('fail_p2', 'fail', 2, depth=2, style=style),
                 gen_job('sim_all', 'all', 1, simulate=12, simdepth=6, size='m', style=style, reads=light, MaxAnns=6, MaxData=4, MaxRes=2)]
    else:
        jobs.append(mc_job('mc_complex', 'complex', maxanns=3))
        jobs.append(mc_job('mc_core', 'core', maxanns=2, timeout=3000))                               # ~2e4 states (maxanns=3: 4e5 states, 11 min)
        jobs.append(mc_job('mc_core_m', 'core', maxanns=2, size='m', MaxData=1, MaxKeys=1, timeout=3000))    # ~4e4 states
        jobs.append(mc_job('mc_fail', 'fail', maxanns=2))
        jobs += [gen_job('core_p1', 'core', 1, depth=3, style=style, sample_mod=4),
                 gen_job('complex_p1', 'complex', 1, depth=3, style=style, sample_mod=4),
                 gen_job('complex_p2', 'complex', 2, depth=3, style=(style + 1) % 5, sample_mod=4),
                 gen_job('complex_p2r', 'complex', 2, depth=2, style=(style + 1) % 5, reads=light),
                 gen_job('remove_p4', 'remove', 4, depth=5, style=style, sample_mod=10),
                 gen_job('remove_p4r', 'remove', 4, depth=3, style=style, reads=light),
                 gen_job('remove_p3', 'remove', 3, depth=5, style=(style + 1) % 5, sample_mod=10),
                 gen_job('remove_p5', 'remove', 5, depth=3, style=(style + 1) % 5, reads=light, **big),
                 gen_job('remove_p6', 'remove', 6, depth=3, style=(style + 2) % 5, reads=light, **big),
                 gen_job('all_p3', 'all', 3, depth=2, style=(style + 1) % 5),
                 gen_job('all_p4', 'all', 4, depth=2, style=(style + 2) % 5),
                 # (depth 2 over these preludes is ~10^7 behaviours: one exhaustive step, then random walks)
                 gen_job('all_p5', 'all', 5, depth=1, style=(style + 3) % 5, **big),
                 gen_job('all_p6', 'all', 6, depth=1, style=(style + 4) % 5, **big),
                 gen_job('sim_all_p5', 'all', 5, simulate=300, simdepth=4, style=(style + 3) % 5, sample_mod=3, **big),
                 gen_job('sim_all_p6', 'all', 6, simulate=300, simdepth=4, style=(style + 4) % 5, sample_mod=3, **big),
                 gen_job('all_p5r', 'all', 5, depth=1, style=style, reads=reads, **big),
                 gen_job('all_p6r', 'all', 6, depth=1, style=style, reads=reads, **big),
                 gen_job('fail_p2', 'fail', 2, depth=3, style=style),
                 gen_job('fail_p4', 'fail', 4, depth=2, style=(style + 3) % 5),
                 gen_job('sim_all', 'all', 1, simulate=200, simdepth=10, size='m', style=(style + 3) % 5, reads=light, MaxAnns=8, MaxData=4,
                         MaxRes=2)]
    return jobs


def offsets_jobs(tier, seed):
    """C04: every cursor pair against every container (Annotate accept/reject + stored range + reported offsets),
    and text selection by offset on resources, ranges and annotations."""
    style = seed % 5
    big = dict(MaxAnns=12, MaxRes=3)
    jobs = [laws_job('offsets', 6 if tier == 'quick' else 9),
            # relative offsets inside complex selectors over annotations (range compression)
            gen_job('complexrel_p13', 'complexrel', 13, depth=1, style=style, reads=['anntext'], per_state=False, MaxAnns=10, MaxRes=2, MaxData=4),
            gen_job('offsets_annotate', 'offsets', 7, depth=1, style=style, reads=['anntext'], per_state=False, **big),
            gen_job('offsets_textsel', 'offsets', 7, depth=0, style=style, reads=['offsets'], **big)]
    if tier != 'quick':
        jobs += [gen_job('offsets_sim', 'offsets', 7, simulate=400, simdepth=4, style=(style + 1) % 5, reads=['anntext'], sample_mod=50, **big),
                 gen_job('offsets_textsel_ms1', 'offsets', 7, depth=0, style=style, reads=['offsets'], env=cfg_env(1), **big),
                 gen_job('offsets_annotate_ms2', 'offsets', 7, depth=1, style=style, reads=['anntext'], env=cfg_env(2), per_state=False, **big)]
    return jobs


MILESTONES = [0, 1, 2, 3, 7, 100]


def bytes_jobs(tier, seed):
    """C12: codepoint/byte conversion on resources, ranges and annotations under every milestone interval, before and
    after annotations populate the position index, and the C04 observations under non-default configurations."""
    style = seed % 5
    big = dict(MaxAnns=12, MaxRes=3)
    jobs = [laws_job('text', 3 if tier == 'quick' else 4)]
    for ms in MILESTONES:
        jobs.append(gen_job(f'bytes_long_ms{ms}', 'offsets', 8, depth=0, style=style, reads=['bytes'], env=cfg_env(ms), **big))
        jobs.append(gen_job(f'bytes_p7_ms{ms}', 'offsets', 7, depth=0, style=style, reads=['bytes', 'anntext'], env=cfg_env(ms), **big))
    jobs.append(gen_job('bytes_hist_ms3', 'offsets', 8, simulate=40 if tier == 'quick' else 300, simdepth=3, style=style,
                        reads=['bytes'], env=cfg_env(3), sample_mod=50, **big))
    jobs.append(gen_job('offsets_textsel_ms1', 'offsets', 7, depth=0, style=style, reads=['offsets'], env=cfg_env(1), **big))
    # "nor any other result": text search / partition and related-text tables under non-default configurations
    jobs.append(gen_job('textops_a1_ms2', 'textops', 0, depth=1, style=style, reads=['textops'], P1=3, P2=1, env=cfg_env(2)))
    jobs.append(gen_job('textops_a5_ms0', 'textops', 0, depth=1, style=style, reads=['textops'], P1=3, P2=5, env=cfg_env(0)))
    jobs.append(gen_job('related_p17_ms1', 'remove', 17, depth=0, style=style, reads=['related', 'segment'], env=cfg_env(1), MaxAnns=12, MaxRes=2))
    jobs.append(gen_job('queries_p5_ms3', 'remove', 5, depth=0, style=0, reads=['queries', 'textqueries', 'finddata'], env=cfg_env(3), MaxAnns=10, MaxRes=3, MaxData=8, MaxSets=2, MaxKeys=4))
    if tier != 'quick':
        for ms in (0, 2, 7):
            jobs.append(gen_job(f'bytes_hist_ms{ms}', 'offsets', 8, simulate=200, simdepth=4, style=style, reads=['bytes'],
                                env=cfg_env(ms), sample_mod=50, **big))
            jobs.append(gen_job(f'offsets_annotate_ms{ms}', 'offsets', 7, depth=1, style=style, reads=['anntext'], env=cfg_env(ms),
                                per_state=False, **big))
    return jobs


def insert_roundtrips(behs, rts, seed):
    """Every behaviour is extended with round-trip steps: one after the whole history (followed by a second one, so that
    the reloaded store is itself written and read again) and, for longer histories, one in the middle, after which the
    history continues on the reloaded store. rts = list of dict(format, layout, compact); the variant used for a
    behaviour rotates with its index."""
    out = []
    for i, b in enumerate(behs):
        ops = json.loads(b)
        rt = rts[(i + seed) % len(rts)]
        op = {'ev': 'RoundTrip', 'a': rt}
        reads = [o for o in ops if o['ev'] not in MUTATING]
        muts = [o for o in ops if o['ev'] in MUTATING]
        new = muts + [op, op] + reads
        out.append(json.dumps(new))
        if len(muts) >= 4 and i % 3 == 0:
            mid = len(muts) // 2 + (i % 2)
            out.append(json.dumps(muts[:mid] + [op] + muts[mid:] + reads))
    return out


def sample_of(beh, maxops=14, maxlen=700):
    """a readable excerpt of one behaviour for the evidence file (large tables are abbreviated)"""
    ops = json.loads(beh) if isinstance(beh, str) else beh
    out = []
    for o in ops[:maxops]:
        txt = json.dumps(o)
        out.append(o if len(txt) <= maxlen else {'ev': o['ev'], 'a_abbreviated': txt[:maxlen] + ' ...'})
    if len(ops) > maxops:
        out.append({'more_ops': len(ops) - maxops, 'kinds': sorted(set(o['ev'] for o in ops[maxops:]))})
    return out


def laws_job(law, n, workers=8, timeout=1500):
    return dict(kind='laws', name=f'laws_{law}_{n}', module='MC_Laws.tla', constants=dict(Law=law, N=n), invariants=['Inv'],
                properties=[], workers=workers, timeout=timeout)


def relations_jobs(tier, seed):
    """C13: the complete truth table of the relation tests (single selections and sets of up to two) over a text."""
    style = seed % 5
    quick = tier == 'quick'
    jobs = [laws_job('relations', 3 if quick else 4),
            gen_job('rel_sets', 'offsets', 9, depth=0, style=style, reads=['relrows'], P1=3 if quick else 4, P2=2),
            gen_job('rel_singles', 'offsets', 9, depth=0, style=style, reads=['relrows'], P1=5 if quick else 6, P2=1)]
    return jobs


def related_jobs(tier, seed):
    """C06: related-text search from every reference (single range bound or unbound, pair of known selections,
    annotation) for every set of known selections reachable within the depth."""
    style = seed % 5
    quick = tier == 'quick'
    big = dict(MaxAnns=12)
    jobs = [laws_job('relations', 3),
            gen_job('related_states', 'related', 9, depth=2 if quick else 3, style=style, reads=['related'], P1=4 if quick else 5, **big)]
    # references (annotations) with nested parts
    jobs.append(gen_job('related_p17', 'remove', 17, depth=0, style=style, reads=['related'], MaxAnns=12, MaxRes=2))
    if quick:
        jobs.append(gen_job('related_sim', 'related', 9, simulate=12, simdepth=4, style=style, reads=['related'], P1=5, sample_mod=7, **big))
    else:
        jobs.append(gen_job('related_sim', 'related', 9, simulate=150, simdepth=5, style=style, reads=['related'], P1=6, sample_mod=7, **big))
        jobs.append(gen_job('related_states_ms2', 'related', 9, depth=2, style=style, reads=['related'], P1=5, env=cfg_env(2), **big))
    return jobs


def textop_jobs(tier, seed):
    """C07: search / split / trim / regex / sequence on every text up to P1 characters over several alphabets, on the
    whole resource and on every sub-range; segmentation for every set of known selections."""
    style = seed % 5
    quick = tier == 'quick'
    big = dict(MaxAnns=12)
    jobs = [laws_job('text', 3 if quick else 4)]
    for alpha in (1, 2, 3, 5) if quick else (1, 2, 3, 4, 5):
        jobs.append(gen_job(f'textops_a{alpha}', 'textops', 0, depth=1, style=style, reads=['textops'], P1=3 if quick else 4, P2=alpha))
    jobs.append(gen_job('segment_states', 'related', 9, depth=2 if quick else 3, style=style, reads=['segment'], P1=4 if quick else 5, **big))
    if not quick:
        jobs.append(gen_job('textops_a1_ms1', 'textops', 0, depth=1, style=style, reads=['textops'], P1=3, P2=1, env=cfg_env(1)))
    return jobs


NO_EDIT = dict(has=False, res=0, kind='', pos=0, c=0)


def RT(fmt, layout='file', compact=False, edit=None):
    return dict(format=fmt, layout=layout, compact=compact, edit=edit or NO_EDIT)


def validation_variants(behs, seed):
    """C18: every behaviour is followed by Validate; a JSON round trip with stand-off text files; Validate; a second
    round trip during which one character of a text file is substituted, inserted or deleted; Validate."""
    edits = [dict(has=True, res=r, kind=k, pos=p, c=71) for r in (1, 2) for k in ('sub', 'ins', 'del') for p in (0, 1, 2, 3, 4, 5, 8, 9, 20, 43)]
    out = []
    val = {'ev': 'Validate', 'a': {'x': 0}}
    step = max(1, len(behs) // 1200)          # cap the number of histories (every step-th one is kept)
    for i, b in enumerate(behs[::step]):
        muts = [o for o in json.loads(b) if o['ev'] in MUTATING]
        for j in range(3):
            e = edits[(i * 3 + j + seed) % len(edits)]
            out.append(json.dumps(muts + [val, {'ev': 'RoundTrip', 'a': RT('json', 'resources')}, val,
                                          {'ev': 'RoundTrip', 'a': RT('json', 'resources', edit=e)}, val]))
    return out


def webanno_jobs(tier, seed):
    """C17: export of every annotation of every reachable store under the four export configurations; values of every
    type and identifiers / strings decorated with quotes, backslashes, control and non-BMP characters (id styles)."""
    quick = tier == 'quick'
    big = dict(MaxAnns=10, MaxRes=3, MaxData=8, MaxSets=2, MaxKeys=4)
    jobs = [mc_job('mc_complex_small', 'complex', maxanns=2)]
    for style in range(5):
        jobs.append(gen_job(f'webanno_core_s{style}', 'core', 2, depth=1, size='v', style=style, reads=['webanno'], **big))
    # string values that look like IRIs (exported as nodes), with backslashes and control characters
    jobs.append(gen_job('webanno_iri', 'core', 2, depth=1, size='i', style=0, reads=['webanno'], **big))
    # the special-purpose preludes (relative complex selectors, nested composite targets, duplicate data references,
    # identifiers that look like temporary ones, two resources with equal offsets)
    jobs += [gen_job('webanno_rel_p13', 'complexrel', 13, depth=1, style=seed % 5, reads=['webanno'], sample_mod=6 if quick else 1, MaxAnns=10, MaxRes=2, MaxData=4),
             gen_job('webanno_p17', 'remove', 17, depth=0, style=(seed + 1) % 5, reads=['webanno'], MaxAnns=12, MaxRes=2),
             gen_job('webanno_p14', 'remove', 14, depth=0, style=(seed + 2) % 5, reads=['webanno'], MaxAnns=10, MaxRes=2, MaxData=4),
             gen_job('webanno_p15', 'tempish', 15, depth=0, style=(seed + 3) % 5, reads=['webanno'], MaxAnns=10, MaxRes=4, MaxData=6, MaxSets=4, MaxKeys=4),
             gen_job('webanno_p16', 'remove', 16, depth=0, style=(seed + 4) % 5, reads=['webanno'], **big),
             # data of the W3C Web Annotation vocabulary (created / creator / motivation are members of the annotation itself)
             gen_job('webanno_p21', 'remove', 21, depth=1, style=(seed + 1) % 5, reads=['webanno'], MaxAnns=10, MaxRes=2, MaxData=8, MaxSets=3, MaxKeys=4)]
    s = seed % 5
    jobs += [gen_job('webanno_complex_p2', 'complex', 2, depth=2, style=s, reads=['webanno'], **big),
             gen_job('webanno_p6', 'remove', 6, depth=1, style=(s + 1) % 5, reads=['webanno'], **big),
             gen_job('webanno_p10', 'complex', 10, depth=1, style=(s + 2) % 5, reads=['webanno'], **big),
             gen_job('webanno_p5', 'all', 5, depth=1, size='v', style=(s + 3) % 5, reads=['webanno'], **big)]
    if not quick:
        jobs += [gen_job('webanno_sim', 'all', 1, simulate=200, simdepth=8, size='v', style=(s + 4) % 5, reads=['webanno'], sample_mod=3, **big)]
    return jobs


def transpose_jobs(tier, seed):
    """C16: every source range over three texts sharing re-ordered fragments, transposed over a two-sided, a three-sided
    and a simple transposition, then transposed back over the transposition that was returned."""
    style = seed % 5
    quick = tier == 'quick'
    big = dict(MaxAnns=20, MaxRes=3, MaxData=6, MaxSets=2, MaxKeys=4)
    jobs = [dict(mc_job('mc_transpose', 'transpose', maxanns=14, maxres=3, prelude=12, MaxData=6, MaxSets=2, MaxKeys=4, Depth=2),
                 invariants=STORE_INVS + ['InvTranspositions']),
            gen_job('transpose_d2', 'transpose', 12, depth=2, style=style, **big),
            gen_job('transpose_back', 'transpose', 12, simulate=60 if quick else 600, simdepth=4, style=(style + 1) % 5, sample_mod=5, **big)]
    if not quick:
        jobs.append(gen_job('transpose_d2_s', 'transpose', 12, depth=2, style=(style + 2) % 5, roundtrips=[RT('json', 'string'), RT('cbor')], **big))
    return jobs


def query_jobs(tier, seed):
    """C08: for every reachable store of a few scenarios the whole query menu of MC_Store!QueriesOf (single constraints of
    every kind, all ordered pairs, unions, limits, one level of (optional) sub-queries), each as STAMQL text and built."""
    quick = tier == 'quick'
    big = dict(MaxAnns=10, MaxRes=3, MaxData=8, MaxSets=2, MaxKeys=4)
    jobs = [mc_job('mc_complex_small', 'complex', maxanns=2),
            gen_job('query_p6', 'remove', 6, depth=0 if quick else 1, style=0, reads=['queries'], **big),
            gen_job('query_p5', 'remove', 5, depth=0 if quick else 1, style=2, reads=['queries'], **big),
            gen_job('query_p10', 'remove', 10, depth=0, size='v', style=3, reads=['queries'], **big),
            # TEXT and RESOURCE results (stores without orphaned text selections; 'complex' adds annotations)
            gen_job('tquery_p5', 'remove', 5, depth=0, style=2, reads=['textqueries'], **big),
            gen_job('tquery_p10', 'remove', 10, depth=0, size='v', style=3, reads=['textqueries'], **big),
            gen_job('tquery_p11', 'remove', 11, depth=0, style=0, reads=['textqueries'], MaxAnns=12, MaxRes=3, MaxData=10, MaxSets=2, MaxKeys=4),
            gen_job('tquery_p6', 'remove', 6, depth=0, style=3, reads=['textqueries'], **big),
            # the special-purpose preludes
            # (14: an annotation that lists a data item twice yields it twice in DATA results - whether that is a duplicate is not
            #  for this check to say, so only the TEXT / RESOURCE / KEY menus are asked there)
            gen_job('query_p14', 'remove', 14, depth=0, style=0, reads=['textqueries'], **big),
            gen_job('query_p15', 'tempish', 15, depth=0, style=2, reads=['queries', 'textqueries'], MaxAnns=10, MaxRes=4, MaxData=6, MaxSets=4, MaxKeys=4),
            # (17 has annotations with several text selections: what TEXT and RELATION constraints mean for those is not documented,
            #  so only the TEXT / RESOURCE / KEY result menus are asked there)
            gen_job('query_p17', 'remove', 17, depth=0, style=3, reads=['textqueries'], MaxAnns=12, MaxRes=2),
            gen_job('query_p19', 'remove', 19, depth=0, style=0, reads=['queries', 'textqueries'], **big),
            gen_job('tquery_c2', 'complex', 2, depth=1 if quick else 2, style=2, reads=['textqueries'], **big)]
    if not quick:
        jobs.append(gen_job('query_v5', 'all', 5, depth=1, size='v', style=0, reads=['queries'], **big))
    return jobs


def load_jobs(tier, seed):
    """C19: for every reachable store of a few scenarios, the menu of structural mutations (MC_Store!LoadOps) of its JSON,
    CSV and CBOR serialisations, loaded in a child process with an address-space limit and a timeout."""
    quick = tier == 'quick'
    big = dict(MaxAnns=10, MaxRes=3, MaxData=8, MaxSets=2, MaxKeys=4)
    style = seed % 5
    jobs = [mc_job('mc_complex_small', 'complex', maxanns=2),
            gen_job('load_p6', 'remove', 6, depth=0 if quick else 1, style=0, reads=['loads'], **big),
            gen_job('load_p10', 'remove', 10, depth=0, style=0, reads=['loads'], **big),
            gen_job('load_p7', 'offsets', 7, depth=0, style=0, reads=['loads'], MaxAnns=12, MaxRes=3),
            gen_job('load_p20', 'remove', 20, depth=0, style=0, reads=['loads'], MaxAnns=12, MaxRes=3, MaxData=8, MaxSets=2, MaxKeys=4)]
    if not quick:
        jobs += [gen_job('load_p5', 'remove', 5, depth=1, style=style, reads=['loads'], **big),
                 gen_job('load_p12', 'transpose', 12, depth=0, style=(style + 1) % 5, reads=['loads'], MaxAnns=20, MaxRes=3, MaxData=6, MaxSets=2, MaxKeys=4)]
    return jobs


def conc_jobs(tier, seed):
    """C20: every interleaving (at the accesses to the shared serialisation-mode cell and the changed flags) of two or three
    reader threads, for several store shapes; TLC checks SequentialResults on the repaired design, the harness replays
    every schedule in real threads parked by the yield hook and TLC validates tags and outputs against the model."""
    quick = tier == 'quick'
    jobs = []
    combos = [(1, 1), (2, 1), (3, 1), (1, 3), (5, 1), (6, 2), (7, 1), (3, 6), (6, 7)] if quick else \
             [(1, 1), (2, 1), (3, 1), (4, 1), (1, 3), (2, 3), (1, 2), (3, 2), (5, 1), (1, 4), (1, 5), (3, 4), (6, 2), (6, 1), (7, 1), (7, 2), (8, 2), (8, 1), (3, 6), (6, 7), (4, 6), (7, 7)]
    for sh, op in combos:
        jobs.append(dict(kind='mc', name=f'mc_sched_{sh}_{op}', module='Gen_Sched.tla', constants=dict(ShapeId=sh, OpsId=op, SharedMode=False, Rounds=0, Big=False),
                         invariants=['InvSequential'], properties=[], workers=4, timeout=900, view='SView'))
        jobs.append(dict(kind='module_gen', name=f'sched_{sh}_{op}', module='Gen_Sched.tla',
                         constants=dict(ShapeId=sh, OpsId=op, SharedMode=True, Rounds=0, Big=False), style=0))
    # three threads on the larger shapes: the model only (the number of schedules is beyond replaying them all)
    for sh, op in ([(7, 4)] if quick else [(7, 4), (7, 5), (8, 4), (8, 5), (4, 4), (4, 5), (6, 4)]):
        jobs.append(dict(kind='mc', name=f'mc_sched_{sh}_{op}', module='Gen_Sched.tla', constants=dict(ShapeId=sh, OpsId=op, SharedMode=False, Rounds=0, Big=False),
                         invariants=['InvSequential'], properties=[], workers=4, timeout=900, view='SView'))
    # free-running rounds: real parallel threads, the interleaving is inferred by TLC (StamConcurrency!FreeConforms)
    free = [(6, 2, True), (7, 4, True), (2, 1, False), (3, 4, False), (3, 6, False)] if quick else \
           [(6, 2, True), (6, 4, True), (7, 4, True), (7, 2, True), (8, 2, True), (2, 1, False), (2, 3, False), (3, 4, False), (4, 4, False), (1, 5, False), (3, 6, False), (4, 6, False), (7, 7, True)]
    for sh, op, big in free:
        jobs.append(dict(kind='module_gen', name=f'free_{sh}_{op}', module='Gen_Sched.tla',
                         constants=dict(ShapeId=sh, OpsId=op, SharedMode=True, Rounds=(6 if big else 12) if quick else (25 if big else 60), Big=big), style=0))
    return jobs


def parse_jobs(tier, seed):
    """C09: every query of the grammar menu (printed by the specification's canonical printer, and built programmatically),
    token-level mutations of a set of seed queries, and hand-written inputs outside the SELECT grammar."""
    quick = tier == 'quick'
    jobs = []
    for style in ((seed % 5, 0) if quick else range(5)):
        jobs.append(dict(kind='module_gen', name=f'parse_s{style}', module='Gen_Query.tla', constants=dict(Depth=2 if quick else 3), style=style))
    return jobs


def validation_jobs(tier, seed):
    style = seed % 5
    quick = tier == 'quick'
    big = dict(MaxAnns=12, MaxRes=3, MaxData=10, MaxSets=2, MaxKeys=4)
    jobs = [mc_job('mc_protect', 'protect', maxanns=12, maxres=2, prelude=11, MaxData=10, MaxSets=2, MaxKeys=4),
            gen_job('protect_p11', 'protect', 11, depth=2, style=style, validation=True, **big),
            gen_job('protect_p6', 'protect', 6, depth=1, style=(style + 1) % 5, validation=True, **big),
            # two resources with different text, annotations at the same offsets
            gen_job('protect_p16', 'protect', 16, depth=2, style=(style + 3) % 5, validation=True, **big),
            gen_job('protect_all_p2', 'all', 2, depth=2 if quick else 3, style=style, validation=True, **big),
            gen_job('protect_sim', 'all', 1, simulate=20 if quick else 200, simdepth=7, size='m', style=(style + 2) % 5, validation=True, **big)]
    return jobs


JSON_RTS = [RT('json', 'string'), RT('json', 'string', True), RT('json', 'file'), RT('json', 'resources'), RT('json', 'resjson'), RT('json', 'datasets'),
            RT('json', 'both'), RT('json', 'substore')]


def roundtrip_jobs(prop, tier, seed):
    """C05 / C11 / C15: round trips appended to (and inserted into) the store histories."""
    style = seed % 5
    quick = tier == 'quick'
    rts = dict(C05=JSON_RTS, C11=[RT('cbor')], C15=[RT('csv')])[prop]
    if prop == 'C15':
        style = 0     # identifiers containing the ';' list separator are outside the claim
    big = dict(MaxAnns=10, MaxRes=3, MaxData=4)
    jobs = [mc_job('mc_complex_small', 'complex', maxanns=2)]
    jobs += [gen_job('rt_core_p1', 'core', 1, depth=2, style=style, roundtrips=rts),
             gen_job('rt_complex_p2', 'complex', 2, depth=2, style=style, roundtrips=rts),
             gen_job('rt_remove_p4', 'remove', 4, depth=2 if quick else 4, style=style, roundtrips=rts),
             gen_job('rt_remove_p5', 'remove', 5, depth=1 if quick else 2, style=(style + 1) % 5 if prop != 'C15' else 0, roundtrips=rts, **big),
             gen_job('rt_remove_p6', 'remove', 6, depth=1 if quick else 2, style=(style + 2) % 5 if prop != 'C15' else 0, roundtrips=rts, **big),
             gen_job('rt_all_p6', 'all', 6, depth=1, style=(style + 3) % 5 if prop != 'C15' else 0, roundtrips=rts, **big),
             gen_job('rt_multi_p10', 'remove', 10, depth=1 if quick else 2, style=style, roundtrips=rts, MaxAnns=10, MaxRes=2, MaxData=6, MaxSets=2),
             gen_job('rt_multi_p10b', 'complex', 10, depth=1, style=style, roundtrips=rts, MaxAnns=10, MaxRes=2, MaxData=6, MaxSets=2),
             gen_job('rt_reads_p6', 'remove', 6, depth=1, style=style, reads=['lookup', 'anntext', 'segment'], per_state=True, roundtrips=rts, **big),
             gen_job('rt_offsets_p7', 'offsets', 7, depth=1, style=style, roundtrips=rts, per_state=True, MaxAnns=12, MaxRes=3),
             # the special-purpose preludes: relative complex selectors (range compression), duplicate data references, identifiers
             # that look like temporary ones, nested composite targets, selectors over pairs of keys / data, a key without data
             gen_job('rt_complexrel_p13', 'complexrel', 13, depth=1, style=style, roundtrips=rts, sample_mod=4 if quick else 1, MaxAnns=10, MaxRes=2, MaxData=4),
             gen_job('rt_dup_p14', 'remove', 14, depth=1, style=style, roundtrips=rts, MaxAnns=10, MaxRes=2, MaxData=4),
             gen_job('rt_tempish_p15', 'tempish', 15, depth=1, style=style, roundtrips=rts, MaxAnns=10, MaxRes=4, MaxData=6, MaxSets=4, MaxKeys=4),
             gen_job('rt_nested_p17', 'remove', 17, depth=1, style=style, roundtrips=rts, MaxAnns=12, MaxRes=2),
             gen_job('rt_meta_p10', 'complexmeta', 10, depth=1, style=style, roundtrips=rts, sample_mod=4 if quick else 1, MaxAnns=10, MaxRes=3, MaxData=8, MaxSets=2, MaxKeys=4),
             gen_job('rt_nodata_p18', 'remove', 18, depth=1, style=style, roundtrips=rts, MaxAnns=10, MaxRes=2, MaxData=4, MaxKeys=5),
             # complex selectors whose members become consecutive on reload after the annotation between them was removed
             gen_job('rt_gap_p23', 'remove', 23, depth=1 if quick else 2, style=style, roundtrips=rts, MaxAnns=10, MaxRes=2, MaxData=4)]
    if prop != 'C15':
        # values that only differ in type ("1" / 1 / 1.0 / true / "yes") and IRI-like strings
        jobs += [gen_job('rt_values_w', 'core', 1, depth=1 if quick else 2, size='w', style=style, roundtrips=rts, sample_mod=1 if quick else 8, MaxAnns=10, MaxRes=3, MaxData=10, MaxSets=2, MaxKeys=4),
                 gen_job('rt_values_i', 'core', 2, depth=1, size='i', style=style, roundtrips=rts, MaxAnns=10, MaxRes=3, MaxData=10, MaxSets=2, MaxKeys=4),
                 # one value of every type: a datetime with a UTC offset, a float, null, a list of mixed values
                 gen_job('rt_values_v', 'core', 2, depth=1 if quick else 2, size='v', style=style, roundtrips=rts, sample_mod=1 if quick else 4, MaxAnns=10, MaxRes=3, MaxData=10, MaxSets=2, MaxKeys=4)]
    jobs += [gen_job('rt_sim_all', 'all', 1, simulate=12 if quick else 150, simdepth=6 if quick else 10, size='m', style=style, roundtrips=rts,
                     MaxAnns=6, MaxData=4, MaxRes=2)]
    return jobs


STORE_RULE = ('behaviours are emitted by TLC from MC_Store.tla (every behaviour of the given depth after a fixed prelude, '
              'plus random walks in -simulate mode); each is replayed on a fresh AnnotationStore and every step is '
              'validated by TLC against Trace.tla (state, raw indices, position index, public API answers)')


TABLE_RULE = ('TLC enumerates every reachable store of the scenario (one behaviour per distinct specification state) and, '
              'for each, the complete table of read-only questions of the menu; the harness asks them of the real store and '
              'TLC (Trace.tla) recomputes every answer from the specification (StamRead.tla)')


def plan_for(prop, tier, seed, replay_file=None):
    if replay_file:
        return dict(jobs=[dict(kind='replay_file', file=replay_file)], rule='replay of a saved counterexample')
    if prop == 'C10':
        big = dict(MaxAnns=10, MaxRes=3, MaxData=10, MaxSets=2, MaxKeys=4)
        find = [gen_job('find_p10', 'core', 10, depth=1, size='v', style=seed % 5, reads=['finddata'], **big),
                gen_job('find_p5', 'remove', 5, depth=1, size='v', style=(seed + 1) % 5, reads=['finddata'], **big),
                # several data items under one key, removed one by one in every order
                gen_job('kdm_p19', 'remove', 19, depth=2 if tier == 'quick' else 3, style=(seed + 2) % 5, sample_mod=1 if tier == 'quick' else 3, **big),
                # equal numbers / booleans / nulls under different explicit ids
                gen_job('find_p22', 'remove', 22, depth=1, style=(seed + 3) % 5, reads=['finddata'], MaxAnns=10, MaxRes=3, MaxData=12, MaxSets=2, MaxKeys=4),
                gen_job('kdm_find_p19', 'remove', 19, depth=2, style=(seed + 2) % 5, reads=['finddata'], **big),
                gen_job('loose_w1', 'core', 1, depth=2, size='w', style=(seed + 3) % 5, sample_mod=8 if tier == 'quick' else 3, **big),
                gen_job('find_w1', 'core', 1, depth=1, size='w', style=(seed + 4) % 5, reads=['finddata'], **big),
                gen_job('find_v1', 'core', 1, depth=1 if tier == 'quick' else 2, size='v', style=(seed + 2) % 5, reads=['finddata'], **big)]
        return dict(jobs=store_jobs(prop, tier, seed) + find, rule=STORE_RULE, assumptions=STORE_ASSUMPTIONS)
    if prop == 'C14':
        big = dict(MaxAnns=10, MaxRes=3, MaxData=10, MaxSets=2, MaxKeys=6)
        batch = [gen_job('batch_p2', 'batch', 2, depth=1, style=(0, 2, 3)[seed % 3], per_state=False, **big),
                 gen_job('batch_p5', 'batch', 5, depth=1 if tier == 'quick' else 2, style=(2, 3, 0)[seed % 3], per_state=False, sample_mod=1 if tier == 'quick' else 7, **big)]
        return dict(jobs=store_jobs(prop, tier, seed) + batch, rule=STORE_RULE, assumptions=STORE_ASSUMPTIONS)
    if prop == 'C03':
        big = dict(MaxAnns=10, MaxRes=3, MaxData=4)
        # compaction (reindex) as the last step of a history of removals, then every lookup (preludes without annotations
        # on annotations: with them the open finding on reindex leads to cyclic targets and the library recurses for minutes)
        rt = [RT('reindex', 'memory')]
        re_ = [gen_job('reindex_p5', 'remove', 5, depth=2 if tier == 'quick' else 3, style=seed % 5, reads=['lookup'], per_state=False, roundtrips=rt, **big),
               gen_job('reindex_p17', 'remove', 17, depth=2 if tier == 'quick' else 3, style=(seed + 1) % 5, reads=['lookup'], per_state=False, roundtrips=rt, sample_mod=1 if tier == 'quick' else 5, MaxAnns=12, MaxRes=2),
               gen_job('reindex_p10', 'remove', 10, depth=2, style=(seed + 3) % 5, reads=['lookup'], per_state=False, roundtrips=rt, MaxAnns=10, MaxRes=3, MaxData=8, MaxSets=2, MaxKeys=4)]
        # identifiers that begin like temporary identifiers
        re_.append(gen_job('tempish_p15', 'tempish', 15, depth=1 if tier == 'quick' else 2, style=(seed + 1) % 5, reads=['lookup'], per_state=False,
                           MaxAnns=10, MaxRes=4, MaxData=6, MaxSets=4, MaxKeys=4))
        return dict(jobs=store_jobs(prop, tier, seed) + re_, rule=STORE_RULE, assumptions=STORE_ASSUMPTIONS)
    if prop == 'C01':
        # complex selectors over annotations with relative offsets (range compression of annotation selectors)
        extra = [gen_job('complexrel_p13', 'complexrel', 13, depth=1, style=seed % 5, reads=['anntext'], per_state=False, MaxAnns=10, MaxRes=2, MaxData=4),
                 # annotations with several values for one key (key.annotations() must list each annotation once)
                 gen_job('multival_p19', 'remove', 19, depth=1, style=(seed + 3) % 5, MaxAnns=10, MaxRes=3, MaxData=10, MaxSets=2, MaxKeys=4),
                 # complex selectors over pairs of keys / data items / annotations
                 gen_job('complexmeta_p10', 'complexmeta', 10, depth=1, style=(seed + 2) % 5, per_state=False, MaxAnns=10, MaxRes=3, MaxData=8, MaxSets=2, MaxKeys=4)]
        if tier != 'quick':
            extra.append(gen_job('complexrel_p13d2', 'complexrel', 13, simulate=400, simdepth=3, style=(seed + 1) % 5, per_state=False, sample_mod=3, MaxAnns=10, MaxRes=2, MaxData=4))
        return dict(jobs=store_jobs(prop, tier, seed) + extra, rule=STORE_RULE, assumptions=STORE_ASSUMPTIONS)
    if prop == 'C02':
        # annotations that list the same data item twice
        extra = [gen_job('remove_p14', 'remove', 14, depth=2 if tier == 'quick' else 3, style=(seed + 2) % 5, MaxAnns=10, MaxRes=2, MaxData=4),
                 # removal by query (DELETE)
                 gen_job('delete_p6', 'delete', 6, depth=1, style=(0, 2, 3)[seed % 3], per_state=False, MaxAnns=10, MaxRes=3, MaxData=4),
                 gen_job('delete_p5', 'delete', 5, depth=1, style=(2, 3, 0)[seed % 3], per_state=False, MaxAnns=10, MaxRes=3, MaxData=4),
                 gen_job('delete_p10', 'delete', 10, depth=1, style=(3, 0, 2)[seed % 3], per_state=False, MaxAnns=10, MaxRes=3, MaxData=8, MaxSets=2, MaxKeys=4),
                 # a key without data that annotations target
                 gen_job('remove_p18', 'remove', 18, depth=2 if tier == 'quick' else 3, style=(seed + 3) % 5, MaxAnns=10, MaxRes=2, MaxData=4, MaxKeys=5)]
        return dict(jobs=store_jobs(prop, tier, seed) + extra, rule=STORE_RULE, assumptions=STORE_ASSUMPTIONS)
    if prop in ('C01', 'C02'):
        return dict(jobs=store_jobs(prop, tier, seed), rule=STORE_RULE, assumptions=STORE_ASSUMPTIONS)
    if prop == 'C04':
        return dict(jobs=store_jobs(prop, tier, seed)[:1] + offsets_jobs(tier, seed) + store_jobs(prop, tier, seed)[1:],
                    rule=STORE_RULE, assumptions=STORE_ASSUMPTIONS)
    if prop in ('C05', 'C11', 'C15'):
        return dict(jobs=roundtrip_jobs(prop, tier, seed), rule=STORE_RULE + '; every history is extended with serialisation round trips '
                    'after which it continues on the reloaded store', assumptions=STORE_ASSUMPTIONS)
    if prop == 'C19':
        return dict(jobs=load_jobs(tier, seed), rule=TABLE_RULE, assumptions=STORE_ASSUMPTIONS)
    if prop == 'C20':
        return dict(jobs=conc_jobs(tier, seed), rule='TLC enumerates every interleaving of the reader threads (Gen_Sched.tla); each schedule is '
                    'replayed in real threads under the yield hook; TLC validates the recorded yield tags and outputs against '
                    'StamConcurrency.tla and checks that every thread obtained its sequential result', assumptions=STORE_ASSUMPTIONS)
    if prop == 'C08':
        return dict(jobs=query_jobs(tier, seed), rule=TABLE_RULE, assumptions=STORE_ASSUMPTIONS)
    if prop == 'C09':
        return dict(jobs=parse_jobs(tier, seed), rule='TLC enumerates the STAMQL grammar menu (Gen_Query.tla), prints every query with the '
                    'specification\'s canonical printer and derives token-level mutations; the harness parses, prints and re-parses each '
                    'text (and builds each query programmatically), TLC validates every Parse event with StamQuery!ParseOK',
                    assumptions=STORE_ASSUMPTIONS)
    if prop == 'C16':
        return dict(jobs=transpose_jobs(tier, seed), rule=STORE_RULE, assumptions=STORE_ASSUMPTIONS)
    if prop == 'C17':
        return dict(jobs=webanno_jobs(tier, seed), rule=TABLE_RULE, assumptions=STORE_ASSUMPTIONS)
    if prop == 'C18':
        return dict(jobs=validation_jobs(tier, seed), rule=STORE_RULE + '; every history is followed by validate, a round trip with '
                    'stand-off text files, validate, a round trip during which one character of a text file is edited, validate',
                    assumptions=STORE_ASSUMPTIONS)
    if prop == 'C13':
        return dict(jobs=relations_jobs(tier, seed), rule=TABLE_RULE, assumptions=STORE_ASSUMPTIONS, laws='relations')
    if prop == 'C06':
        return dict(jobs=related_jobs(tier, seed), rule=TABLE_RULE, assumptions=STORE_ASSUMPTIONS, laws='relations')
    if prop == 'C07':
        return dict(jobs=textop_jobs(tier, seed), rule=TABLE_RULE, assumptions=STORE_ASSUMPTIONS, laws='text')
    if prop == 'C12':
        return dict(jobs=store_jobs(prop, tier, seed)[:1] + bytes_jobs(tier, seed), rule=STORE_RULE, assumptions=STORE_ASSUMPTIONS)
    raise ToolError('no plan for ' + prop)


def run_job(job, prop, tier, seed):
    kind = job['kind']
    if kind == 'laws':
        job = dict(job, kind='mc')
        kind = 'mc'
    if kind == 'mc':
        wd = workdir('mc_' + job['name'])
        cfg = os.path.join(wd, 'mc.cfg')
        write_cfg(cfg, constants=job['constants'], invariants=job['invariants'], properties=job['properties'],
                  constraint=job.get('constraint'), view=job.get('view'))
        r = run_tlc(job['module'], cfg, wd, workers=job.get('workers', 8), timeout=job.get('timeout', 1500))
        v = violated(r['out'])
        return dict(states=r['distinct'], transitions=r['states'], model_violations=[f'{job["name"]}: {x}' for x in v],
                    model_run=dict(name=job['name'], module=job['module'], constants=job['constants'], distinct_states=r['distinct'],
                                   states_generated=r['states'], wall_s=round(r['wall'], 1), invariants=job['invariants'],
                                   properties=job['properties']))
    if kind == 'module_gen':
        behs, r = generate_from(job['module'], job['name'], job['constants'], timeout=job.get('timeout', 900))
        if not behs:
            raise ToolError(f'generator {job["name"]} produced no behaviours')
        trace = replay(job['name'], behs, style=job.get('style', 0), extra_env=job.get('env'))
        mism, stats = validate(job['name'], trace)
        nev = sum(len(json.loads(b)) for b in behs)
        return dict(states=r['distinct'], transitions=r['states'], traces_validated_against_impl=len(behs), events_validated=nev,
                    unexamined_events=stats['skipped'], mismatches=mism, samples=[sample_of(behs[0], maxops=6)],
                    generator=dict(name=job['name'], module=job['module'], constants=job['constants'], behaviours=len(behs),
                                   events=nev, generator_states=r['distinct'], idstyle=job.get('style', 0)))
    if kind == 'store_gen':
        behs, r = generate(job['name'], job['constants'], depth=job.get('depth'), simulate=job.get('simulate'),
                           simdepth=job.get('simdepth'), seed=seed if job.get('simulate') else None,
                           per_state=job.get('per_state', False), sample_mod=job.get('sample_mod', 1))
        if not behs:
            raise ToolError(f'generator {job["name"]} produced no behaviours')
        if job.get('validation'):
            behs = validation_variants(behs, seed)
        if job.get('roundtrips'):
            behs = insert_roundtrips(behs, job['roundtrips'], seed)
        trace = replay(job['name'], behs, style=job.get('style', 0), extra_env=job.get('env'))
        mism, stats = validate(job['name'], trace)
        return dict(traces_validated_against_impl=len(behs), events_validated=stats['events'] - len(behs),
                    unexamined_events=stats['skipped'], out_of_domain_events=stats['outofdomain'], mismatches=mism,
                    samples=[sample_of(behs[len(behs) // 2])],
                    generator=dict(name=job['name'], constants=job['constants'], depth=job.get('depth'), simulate=job.get('simulate'),
                                   behaviours=len(behs), generator_states=r['distinct'], idstyle=job.get('style', 0),
                                   config=job.get('env', {})))
    if kind == 'replay_file':
        rp = json.load(open(job['file']))
        rs = rp.get('reset') or {}
        style = rs.get('style', 0)
        trace = replay('replayfile', [json.dumps(rp['ops'])], style=style,
                       extra_env=cfg_env(rs['milestone'] if rs.get('milestone', -1) >= 0 else None, rs.get('shrink', False)))
        mism, stats = validate('replayfile', trace, nproc=1)
        return dict(traces_validated_against_impl=1, events_validated=stats['events'] - 1, mismatches=mism, samples=[sample_of(rp['ops'])])
    raise ToolError('unknown job kind ' + kind)
