"""Thin wrappers around TLC / SANY. A TLC exception or timeout is a tool error (exit 2), never a verdict."""
import json, os, re, shutil, subprocess, time, zlib

VERIF = os.path.dirname(os.path.dirname(os.path.abspath(__file__)))
SPEC = os.path.join(VERIF, 'spec')
WORK = os.path.join(VERIF, 'work')


class ToolError(Exception):
    pass


def workdir(name):
    d = os.path.join(WORK, name)
    shutil.rmtree(d, ignore_errors=True)
    os.makedirs(d, exist_ok=True)
    return d


def write_cfg(path, spec='Spec', constants=None, invariants=(), properties=(), constraint=None, view=None,
              postcondition=None):
    lines = [f'SPECIFICATION {spec}']
    if constants:
        lines.append('CONSTANTS')
        for k, v in constants.items():
            if isinstance(v, bool):
                v = 'TRUE' if v else 'FALSE'
            elif isinstance(v, str):
                v = '"%s"' % v
            elif isinstance(v, (list, tuple, set)):
                v = '{' + ', '.join('"%s"' % x for x in v) + '}'
            lines.append(f'  {k} = {v}')
    if constraint:
        lines.append(f'CONSTRAINT {constraint}')
    if view:
        lines.append(f'VIEW {view}')
    for i in invariants:
        lines.append(f'INVARIANT {i}')
    for p in properties:
        lines.append(f'PROPERTY {p}')
    if postcondition:
        lines.append(f'POSTCONDITION {postcondition}')
    lines.append('CHECK_DEADLOCK FALSE')
    open(path, 'w').write('\n'.join(lines) + '\n')


REPLAY = re.compile(r'^<<"REPLAY", (".*")>>\s*$')
STATS = re.compile(r'^(\d+) states generated, (\d+) distinct states found, (\d+) states left on queue', re.M)


def run_tlc(module, cfg, wd, workers=4, timeout=1800, env=None, simulate=None, depth=None, extra=(), java_opts='-Xss1g',
            seed=None, collect_replays=None, sample_mod=1):
    """Run TLC; returns dict(out, states, distinct, wall, rc). Raises ToolError on timeout / TLC exception."""
    e = dict(os.environ)
    e['JAVA_TOOL_OPTIONS'] = java_opts
    if env:
        e.update(env)
    cmd = ['tlc', '-workers', str(workers), '-metadir', os.path.join(wd, 'states'), '-cleanup', '-noGenerateSpecTE',
           '-config', cfg]
    if simulate:
        cmd += ['-simulate', f'num={simulate}']
    if depth:
        cmd += ['-depth', str(depth)]
    if seed is not None:
        cmd += ['-seed', str(seed)]
    cmd += list(extra) + [os.path.join(SPEC, module)]
    t0 = time.time()
    behaviours = None
    if collect_replays is None:
        try:
            p = subprocess.run(cmd, cwd=wd, env=e, stdout=subprocess.PIPE, stderr=subprocess.STDOUT, timeout=timeout, text=True)
        except subprocess.TimeoutExpired:
            raise ToolError(f'TLC timed out after {timeout}s: {" ".join(cmd)}')
        out = p.stdout
        rc = p.returncode
    else:
        # generator mode: stream the output, keep distinct REPLAY lines only (at most collect_replays of them; in
        # -simulate mode TLC is stopped once enough behaviours were printed)
        behaviours, seen, other = [], set(), []
        p = subprocess.Popen(cmd, cwd=wd, env=e, stdout=subprocess.PIPE, stderr=subprocess.STDOUT, text=True, bufsize=1 << 20)
        stopped = False
        for line in p.stdout:
            if line.startswith('<<"REPLAY", '):
                m = REPLAY.match(line)
                if m:
                    h = hash(line)
                    if h not in seen and (sample_mod <= 1 or zlib.crc32(line.encode()) % sample_mod == 0):
                        seen.add(h)
                        behaviours.append(json.loads(m.group(1)))
                        if len(behaviours) >= collect_replays:
                            stopped = True
                            p.kill()
                            break
            else:
                other.append(line)
            if time.time() - t0 > timeout:
                p.kill()
                raise ToolError(f'TLC timed out after {timeout}s: {" ".join(cmd)}')
        p.wait()
        out = ''.join(other)
        rc = 0 if stopped else p.returncode
    wall = time.time() - t0
    shutil.rmtree(os.path.join(wd, 'states'), ignore_errors=True)
    m = STATS.search(out)
    res = dict(out=out, rc=rc, wall=wall, behaviours=behaviours, states=int(m.group(1)) if m else 0, distinct=int(m.group(2)) if m else 0)
    if 'TLC threw an unexpected exception' in out or 'Error: Parsing or semantic analysis failed' in out \
            or 'Error: The error occurred when TLC was evaluating' in out \
            or 'java.lang.' in out and 'Exception' in out and 'Error:' in out and 'is violated' not in out:
        open(os.path.join(wd, 'tlc_error.out'), 'w').write(out)
        raise ToolError('TLC failed (tool error, not a verdict); output in ' + os.path.join(wd, 'tlc_error.out') + '\n'
                        + '\n'.join(l for l in out.splitlines() if not l.startswith(('Parsing', 'Semantic', 'Linting')))[-3000:])
    return res


def behaviours_from_output(out):
    seen = set()
    res = []
    for line in out.splitlines():
        m = REPLAY.match(line)
        if m:
            s = json.loads(m.group(1))
            if s not in seen:
                seen.add(s)
                res.append(s)
    return res


def violated(out):
    """names of invariants/properties TLC reports as violated"""
    v = re.findall(r'Error: Invariant (\S+) is violated', out)
    v += re.findall(r'Error: Action property (\S+) is violated', out)
    if 'Temporal properties were violated' in out:
        v.append('temporal')
    if 'Error: Assumption' in out:
        v.append('assumption')
    return v
