"""Conformance engine: generate behaviours with TLC, replay them on the real code, validate traces with TLC,
turn rejections into attributed, fingerprinted findings."""
import concurrent.futures, hashlib, json, os, re, subprocess, sys, time

from tlc import *
from tracediff import canon_state, diff, parse_tlc_output

HARNESS = os.path.join(VERIF, 'harness')
BIN = os.path.join(HARNESS, 'target', 'debug', 'stamverif')


def _alt_repo():
    repo = os.environ.get('VERIF_REPO')
    return repo if repo and os.path.abspath(repo) != '/repo' else None


def harness_bin():
    return os.path.join(HARNESS, 'target_alt' if _alt_repo() else 'target', 'debug', 'stamverif')


def build_harness():
    """Rebuild the harness against /repo's current working tree (hooks on via .cargo/config.toml).
    VERIF_REPO=<dir> (used only to evaluate seeded defects in a scratch worktree while /repo is busy) overrides the
    path dependency through cargo's `paths` setting and builds into a separate target directory."""
    t0 = time.time()
    env = dict(os.environ, CARGO_NET_OFFLINE='true')
    cmd = ['cargo', 'build', '--offline']
    alt = _alt_repo()
    if alt:
        cmd += ['--config', 'paths=["%s"]' % alt, '--target-dir', os.path.join(HARNESS, 'target_alt')]
    p = subprocess.run(cmd, cwd=HARNESS, env=env, stdout=subprocess.PIPE, stderr=subprocess.STDOUT, text=True)
    if p.returncode != 0:
        raise ToolError('cargo build of the harness failed:\n' + p.stdout[-4000:])
    return time.time() - t0


def generate(name, constants, depth=None, simulate=None, simdepth=None, workers=4, seed=None, timeout=900, per_state=False,
             max_behaviours=None, sample_mod=1):
    """Behaviours (JSON strings) from MC_Store.tla driven as a generator."""
    wd = workdir('gen_' + name)
    cfg = os.path.join(wd, 'gen.cfg')
    base = dict(MaxRes=2, MaxSets=1, MaxAnns=4, MaxData=3, MaxKeys=2, Depth=depth if depth is not None else (simdepth if simdepth is not None else 3), Scenario='all',
                Size='s', Prelude=0, Reads=[], DevShift=False, EmitAll=bool(per_state), P1=0, P2=0)
    base.update(constants)
    write_cfg(cfg, constants=base, constraint='Bounded', invariants=['Emit'], view='View' if per_state else None)
    r = run_tlc('MC_Store.tla', cfg, wd, workers=workers, simulate=simulate,
                depth=(base['Depth'] + 8) if simulate else None, seed=seed, timeout=timeout,
                collect_replays=(max_behaviours or simulate * 8) if simulate else (max_behaviours or 10 ** 7),
                sample_mod=sample_mod)
    v = violated(r['out'])
    if v:
        raise ToolError(f'generator {name}: unexpected violation {v}')
    return r['behaviours'], r


def generate_from(module, name, constants, workers=4, timeout=900, max_behaviours=None):
    """Behaviours from a stand-alone generator module (every state prints one behaviour through the invariant Emit)."""
    wd = workdir('gen_' + name)
    cfg = os.path.join(wd, 'gen.cfg')
    write_cfg(cfg, constants=constants, invariants=['Emit'])
    r = run_tlc(module, cfg, wd, workers=workers, timeout=timeout, collect_replays=max_behaviours or 10 ** 7)
    v = violated(r['out'])
    if v:
        raise ToolError(f'generator {name}: unexpected violation {v}')
    return r['behaviours'], r


def replay(name, behaviours, style=0, extra_env=None):
    wd = workdir('replay_' + name)
    inp = os.path.join(wd, 'behaviours.ndjson')
    with open(inp, 'w') as f:
        for b in behaviours:
            f.write(b + '\n')
    out = os.path.join(wd, 'trace.ndjson')
    env = dict(os.environ, VERIF_IDSTYLE=str(style))
    if extra_env:
        env.update(extra_env)
    p = subprocess.run([harness_bin(), 'replay', inp, out], env=env, stdout=subprocess.PIPE, stderr=subprocess.PIPE, text=True)
    if p.returncode != 0:
        raise ToolError(f'harness failed (rc={p.returncode}): {p.stderr[-2000:]}')
    return out


def split_trace(path, nchunks):
    """Split a trace at Reset boundaries into at most nchunks files; returns [(file, first_line_no)]."""
    lines = open(path).read().splitlines()
    starts = [i for i, l in enumerate(lines) if l.startswith('{"ev":"Reset"')]
    if not starts:
        return [(path, 1)]
    per = max(1, (len(starts) + nchunks - 1) // nchunks)
    chunks = []
    for c in range(0, len(starts), per):
        b = starts[c]
        e = starts[c + per] if c + per < len(starts) else len(lines)
        fn = f'{path}.part{len(chunks)}'
        open(fn, 'w').write('\n'.join(lines[b:e]) + '\n')
        chunks.append((fn, b + 1))
    return chunks


def _validate_one(args):
    fn, first, idx, wdname = args
    wd = workdir(f'{wdname}_{idx}')
    cfg = os.path.join(wd, 'trace.cfg')
    write_cfg(cfg, spec='TraceSpec', postcondition='TraceAccepted', constants=dict(SharedMode=True))
    r = run_tlc('Trace.tla', cfg, wd, workers=1, env={'TRACE': fn},
                java_opts='-Xss1g -Xmx3g -Dtlc2.tool.queue.IStateQueue=StateDeque', timeout=3000)
    return fn, first, r


def validate(name, trace_path, nproc=8):
    """Validate a trace; returns (mismatches, stats). Each mismatch: dict(line, rec, exp, ops)."""
    chunks = split_trace(trace_path, nproc)
    results = []
    with concurrent.futures.ThreadPoolExecutor(max_workers=nproc) as ex:
        for res in ex.map(_validate_one, [(fn, first, i, 'val_' + name) for i, (fn, first) in enumerate(chunks)]):
            results.append(res)
    agg = {}            # (props, fingerprint) -> aggregated mismatch (first occurrence kept in full, the rest counted)
    events = 0
    skipped = 0
    outofdomain = 0
    for fn, first, r in results:
        out = r['out']
        lines = open(fn).read().splitlines()
        events += len(lines)
        if f'<<"CONSUMED", {len(lines)}>>' not in out:
            open(fn + '.tlc.out', 'w').write(out)
            raise ToolError(f'trace validator did not consume the whole trace {fn} (see {fn}.tlc.out)')
        skipped += out.count('<<"SKIPPED"')
        outofdomain += out.count('<<"OUTOFDOMAIN"')
        for ln, exp in parse_tlc_output(out):
            rec = json.loads(lines[ln - 1])
            if rec['ev'] == 'Parse':
                k = ln - 1
                while k > 0 and not lines[k].startswith('{"ev":"Reset"'):
                    k -= 1
                rec['_reset'] = json.loads(lines[k])['a']
            m = dict(line=first + ln - 1, rec=rec, exp=exp)
            diffs = mismatch_diffs(m)
            props = ','.join(sorted(attribute(m, diffs)))
            fp = fingerprint(m, diffs)
            a = agg.get((props, fp))
            if a:
                a['n'] += 1
                continue
            i = ln - 1
            while i > 0 and not lines[i].startswith('{"ev":"Reset"'):
                i -= 1
            # replay needs the mutating prefix only (read-only events do not change the store) plus the rejected event
            ops = []
            for j in range(i + 1, ln):
                x = json.loads(lines[j])
                if j == ln - 1 or x['ev'] in MUTATING:
                    ops.append({'ev': x['ev'], 'a': x['a']})
            m.update(ops=ops, reset=json.loads(lines[i])['a'], diffs=diffs, props=props.split(','), fp=fp, n=1, direct=True)
            agg[(props, fp)] = m
        os.remove(fn)
    return list(agg.values()), dict(events=events, skipped=skipped, outofdomain=outofdomain)


MUTATING = {'AnnotateBatch', 'QueryAdd', 'QueryDelete', 'Reindex', 'AddResource', 'AddDataset', 'AddKey', 'InsertData', 'Annotate', 'RemoveAnnotation', 'RemoveResource',
            'RemoveDataset', 'RemoveData', 'RemoveKey', 'StripAnnotationIds', 'StripDataIds', 'ShrinkToFit', 'RoundTrip', 'ProtectText', 'Transpose'}


# ---------------------------------------------------------------------------------------------
# attribution and fingerprints

def norm_path(p):
    return re.sub(r'\[\d+\]', '[*]', p)


def mismatch_diffs(m):
    rec, exp = m['rec'], m['exp']
    d = []
    if exp.get('readonly'):
        e, g = exp.get('expected'), rec.get('api')
        if rec['ev'] == 'TestRelationRow' and isinstance(g, dict) and len(e.get('v', [])) == len(g.get('v', [])):
            return [(f'cell[|B|={len(rec["a"]["Bs"][i])}]' + ('panic' if g['v'][i] == 'P' else ''), dict(B=rec['a']['Bs'][i], v=e['v'][i]), g['v'][i])
                    for i in range(len(e['v'])) if e['v'][i] != g['v'][i]]
        if rec['ev'] == 'RelatedRow' and isinstance(g, dict) and len(e.get('rows', [])) == len(g.get('rows', [])):
            d = []
            for i in range(len(e['rows'])):
                es, gs = sorted(map(tuple, e['rows'][i])), sorted(map(tuple, g['rows'][i]))
                if es != gs or len(set(gs)) != len(gs):
                    o = rec['a']['os'][i]
                    kind = ('dup' if len(set(gs)) != len(gs) else '') + ('missing' if set(es) - set(gs) else '') + ('extra' if set(gs) - set(es) else '')
                    d.append((f'row[{o["op"]}{",all" if o["all"] else ""}{",neg" if o["negate"] else ""}{",ws" if o["ws"] else ""}{",limit" if o["limit"] else ""}]{kind}',
                              dict(o=o, ranges=e['rows'][i]), g['rows'][i]))
            return d
        if rec['ev'] == 'FindData':
            es = set(json.dumps(x) for x in e.get('items', []))
            gs = [json.dumps(x) for x in (g or {}).get('items', [])]
            d = []
            if len(set(gs)) != len(gs):
                d.append(('finddata.duplicates', 'each once', gs))
            if es - set(gs):
                d.append(('finddata.missing', sorted(es - set(gs))[:4], []))
            if set(gs) - es:
                d.append(('finddata.extra', [], sorted(set(gs) - es)[:4]))
            return d or [('finddata', 'ok', rec['outcome'])]
        if rec['ev'] == 'Load':
            if not e.get('outcome'):
                return [('load.' + rec['outcome'], 'ok|err', rec['outcome'])]
            return [('load.invariants', 'StateOK(loaded store)', 'violated')]
        if rec['ev'] in ('ConcRun', 'ConcFree'):
            d = []
            if not e.get('conforms'):
                d.append(('conc.conformance', e.get('threads'), dict(threads=(g or {}).get('threads'), files=(g or {}).get('files'), leftovers=(g or {}).get('leftovers'))))
            if not e.get('sequential'):
                got = [t['forms'] for t in (e.get('threads') or (g or {}).get('threads', []))]
                for i, (al, gt) in enumerate(zip(e.get('alone', []), got)):
                    if rec['a']['ops'][i]['op'] == 'par':
                        continue      # (compared with its own digest taken alone: part of conformance)
                    if al != gt:
                        d.append((f'conc.sequential[{rec["a"]["ops"][i]["op"]}]', al, gt))
                gf = (g or {}).get('files', [])
                for i, (ef, f) in enumerate(zip(e.get('seqfiles', []), gf)):
                    if ef != f:
                        d.append((f'conc.file[{f}]', ef, f))
            return d or [('conc', 'ok', 'rejected')]
        if rec['ev'] == 'Query':
            if not e.get('ok'):
                return [('query.outcome', 'err', rec['outcome'])]
            if rec['outcome'] != 'ok':
                return [('query.outcome', 'ok', rec['outcome'] + ':' + str(g.get('error', ''))[:100])]
            es = sorted(json.dumps(x, sort_keys=True) for x in e.get('rows', []))
            bs = [json.dumps(x, sort_keys=True) for x in g.get('base', [])]
            d = []
            if len(set(bs)) != len(bs):
                d.append(('query.duplicates', 'each row once', 'rows repeated'))
            kinds = e.get('kinds') or []

            def kinds_of(rows):
                """target kinds of the annotations in first position of the rows (discriminates findings)"""
                ks = set()
                for x in rows:
                    it = json.loads(x)[0]
                    if it.get('t') == 'ann' and 0 < it['a'] <= len(kinds):
                        ks.add(kinds[it['a'] - 1] or 'dead')
                return ('_' + '_'.join(sorted(ks))) if ks else ''
            if set(bs) - set(es):
                extra = sorted(set(bs) - set(es))
                d.append(('query.extra' + kinds_of(extra), [], [json.loads(x) for x in extra][:4]))
            if set(es) - set(bs):
                missing = sorted(set(es) - set(bs))
                d.append(('query.missing' + kinds_of(missing), [json.loads(x) for x in missing][:4], []))
            if not d:
                d.append(('query.limit', 'slice of the unlimited result', dict(rows=g.get('rows'), base=g.get('base'))))
            return d
        if rec['ev'] == 'Parse':
            a = rec['a']
            d = []
            if rec['outcome'] == 'panic':
                d.append(('parse.panic', 'ok|err', 'panic'))
            elif not a['mutated'] and rec['outcome'] != 'ok':
                d.append(('parse.rejected', 'ok', rec['outcome']))
            elif rec['outcome'] == 'ok':
                if not a['mutated'] and a['built'] and g['ast0'] != a['ast']:
                    d += [('parse.built_ast' + norm_path(p)[2:], x, y) for p, x, y in diff(a['ast'], g['ast0'], 'q')][:3]
                if not a['mutated'] and g['ast1'] != a['ast']:
                    d += [('parse.ast' + norm_path(p)[2:], x, y) for p, x, y in diff(a['ast'], g['ast1'], 'q')][:3]
                if not g['print_ok']:
                    if not a['mutated']:
                        d.append(('parse.print', 'ok', 'err'))
                elif not g['reparse_ok']:
                    d.append(('parse.reparse', 'ok', 'err'))
                elif g['ast2'] != g['ast1']:
                    d += [('parse.reparse_ast' + norm_path(p)[2:], x, y) for p, x, y in diff(g['ast1'], g['ast2'], 'q')][:3]
                elif g['d1'] != g['d2']:
                    d.append(('parse.reprint', 'identical', 'differs'))
            return d or [('parse', 'accepted', 'rejected by ParseOK')]
        if rec['ev'] == 'WebAnno' and isinstance(g, dict) and isinstance(e, dict):
            if e.get('wf') != g.get('wf') or e.get('ok') != g.get('ok'):
                return [('webanno.' + k, e.get(k), g.get(k)) for k in ('ok', 'wf') if e.get(k) != g.get(k)]
            return [('webanno.' + k, e.get(k), g.get(k)) for k in ('ok', 'wf', 'targets', 'others', 'extra', 'body')
                    if json.dumps(e.get(k), sort_keys=True) != json.dumps(g.get(k), sort_keys=True)
                    and not (k == 'others' and set(map(lambda x: json.dumps(x), e.get(k) or [])) == set(map(lambda x: json.dumps(x), g.get(k) or [])))
                    and not (k in ('body',) and set(map(lambda x: json.dumps(x, sort_keys=True), e.get(k) or [])) == set(map(lambda x: json.dumps(x, sort_keys=True), g.get(k) or [])))]
        return [('readonly', e, {'res': rec.get('res'), 'api': g})]
    if exp.get('roundtrip'):
        ok = exp['ok']
        if not ok['outcome']:
            d.append(('outcome', 'ok', rec['outcome'] + ':' + str((rec.get('x') or {}).get('error', ''))[:80]))
        elif not ok['inv']:
            bad = sorted(k for k, v in (exp.get('invs') or {}).items() if not v)
            d.append(('loaded_state_invariants' + ('_' + '_'.join(bad) if bad else ''), 'StateOK', 'violated'))
        elif not ok['view']:
            if rec['a']['format'] == 'cbor':
                d += diff(canon_state(exp['st']), canon_state(rec['post']), 'st')
            else:
                d += diff(exp['view'], exp['got'], 'view')
        if not ok['again']:
            d.append(('second_serialisation', 'identical', 'differs'))
        if not ok['pos']:
            d.append(('pos', 'PosIndex', rec.get('pos')))
        if not ok['api'] and exp.get('api'):
            d += diff(exp['api'], rec['api'], 'api')
        return d
    if 'st' in exp:
        if not rec.get('projok', True):
            d.append(('projection', 'ok', 'panic'))
        else:
            d += diff(canon_state(exp['st']), canon_state(rec['post']), 'st')
        if exp.get('api'):
            d += diff(exp['api'], rec['api'], 'api')
        if exp['outcome'] != 'either' and rec['outcome'] != exp['outcome']:
            d.append(('outcome', exp['outcome'], rec['outcome']))
        if exp['outcome'] == 'either' and rec['outcome'] not in ('ok', 'err'):
            d.append(('outcome', 'ok|err', rec['outcome']))
        ok = exp.get('ok', {})
        if ok and not ok.get('res', True):
            d.append(('result', exp.get('res'), rec.get('res')))
        if ok and not ok.get('order', True):
            d.append(('textual_order', 'textual', 'not textual'))
        if ok and not ok.get('pos', True):
            d.append(('pos', 'PosIndex(tsel) with exact byte offsets', rec.get('pos')))
    return d


REMOVALS = ('RemoveAnnotation', 'RemoveResource', 'RemoveDataset', 'RemoveData', 'RemoveKey', 'QueryDelete')


def attribute(m, diffs):
    """set of property ids this rejection is evidence against"""
    rec, exp = m['rec'], m['exp']
    ev = rec['ev']
    props = set()
    paths = [norm_path(p) for p, _, _ in diffs]
    if exp.get('readonly'):
        return {READONLY_OWNER.get(ev, 'C01')}
    if exp.get('roundtrip'):
        if rec['a'].get('edit', {}).get('has'):
            return {'C18'}
        return {dict(json='C05', cbor='C11', csv='C15', reindex='C03')[rec['a']['format']]}
    if ev == 'Transpose':
        return {'C16'}
    if ev == 'Reindex':
        return {'C03'}
    expected_err = exp.get('outcome') in ('err', 'either')
    if expected_err and ev not in REMOVALS:
        if rec['outcome'] == 'ok' and exp.get('outcome') == 'err':
            # an invalid request was accepted: offsets -> C04, anything else -> the store family (C01)
            return {'C04'} if ev == 'Annotate' and _has_offset(rec['a']['target']) else {'C01'}
        return {'C14'}
    for p in paths:
        if p.startswith('st.ix.') or p in ('pos', 'textual_order') or p.startswith('api.res') or p.startswith('api.totals') \
                or p.startswith('api.anns[*].rev') or p.startswith('api.anns[*].intargets') or p.startswith('api.anns[*].tsels') \
                or p.startswith('api.anns[*].data') or p.startswith('api.sets'):
            props.add('C01')
        if '.kdm' in p or p.startswith('api.sets[*].keys[*].data'):
            props.add('C10')
        if p.startswith('st.idm') or p.endswith('.kidm') or p.endswith('.didm'):
            props.add('C03')
        if p == 'api.exercise':
            props.add('C02')
        if ev in REMOVALS:
            # "touches nothing else": a removal after which an index row, an id map or an item differs from the specification
            if p.startswith('st.ix.') or p.startswith('st.idm'):
                props.add('C02')
            if p == 'outcome' or p.endswith('.alive') or p.startswith('st.anns') or p.startswith('st.res') \
                    or p.startswith('st.sets') or p == 'projection':
                props.add('C02')
        else:
            if p.startswith('st.sets[*].data') or p.startswith('st.sets[*].keys') or p == 'st.sets':
                props.add('C10')
            if p.endswith('.leaves[*].m'):
                props.add('C01')      # only the alignment mode differs: the target is not what it was built with
            elif p.startswith('st.res[*].tsel') or p.startswith('st.anns[*].leaves'):
                props.add('C04')
                props.add('C01')
            if p in ('outcome', 'result', 'projection') or ((p.startswith('st.anns') or p.startswith('st.res')) and not p.endswith('.leaves[*].m')):
                props.add('C01')
    if ev == 'ProtectText':
        props.add('C18')
    if not props:
        props.add('C01')
    return props


READONLY_OWNER = {'Lookup': 'C03', 'TextSel': 'C04', 'AnnTextOf': 'C04', 'OffsetReport': 'C04', 'Utf8Byte': 'C12',
                  'ByteToChar': 'C12', 'TextOp': 'C07', 'TestRelation': 'C13', 'RelatedText': 'C06',
                  'TestRelationRow': 'C13', 'RelatedRow': 'C06', 'Validate': 'C18', 'WebAnno': 'C17', 'Parse': 'C09', 'Query': 'C08', 'ConcRun': 'C20', 'ConcFree': 'C20', 'Load': 'C19', 'FindData': 'C10'}


def _has_offset(t):
    return (t['kind'] == 'Text') or (t['kind'] == 'Ann' and t['off']['has']) or any(_has_offset(x) for x in t.get('subs', []))


def arg_features(rec):
    """discriminating features of the arguments (part of the fingerprint)"""
    ev, a = rec['ev'], rec['a']
    f = []
    if ev == 'Annotate':
        t = a['target']
        f.append('target=' + t['kind'])
        if t['subs']:
            f.append('subs=' + '+'.join(sorted(set(s['kind'] + ('@' if s['off']['has'] and s['kind'] == 'Ann' else '') for s in t['subs']))))
        if t['kind'] == 'Ann' and t['off']['has']:
            f.append('relative')
        f.append('data=%d' % len(a['data']))
        f.append('id=' + ('y' if a['id'] else 'n'))
    elif ev in ('RemoveData', 'RemoveKey'):
        f.append('strict=' + str(a['strict']).lower())
    elif ev == 'InsertData':
        f.append('safety=' + str(a['safety']).lower())
        f.append('id=' + a['id']['by'])
    elif ev in ('TextSel', 'Utf8Byte', 'ByteToChar', 'TextOp'):
        f.append('on=' + a['c']['on'])
        if ev == 'TextOp':
            f.append('op=' + a['op'])
        if ev == 'TextSel':
            f.append('off=' + a['off']['bk'] + a['off']['ek'])
    elif ev == 'OffsetReport':
        f.append('m=%d' % a['m'])
    elif ev == 'QueryDelete':
        f.append('sub=%s[%s]' % (a['sub']['rt'], '+'.join(c['k'] + ('@m' if c['q'] else '') for c in a['sub']['cs'])))
    elif ev == 'QueryAdd':
        f.append('sub=%s[%s],id=%s,data=%d' % (a['sub']['rt'], '+'.join(c['k'] for c in a['sub']['cs']), 'y' if a['id'] else 'n', len(a['data'])))
    elif ev == 'AnnotateBatch':
        f.append('via=%s,notarget=%d' % (a['via'], int(any(i['target']['kind'] == 'None' for i in a['items']))))
    elif ev == 'FindData':
        f.append('via=%s,set=%s,key=%s,op=%s,v=%s' % (a['via'], 'y' if a['set'] else 'n', 'y' if a['key'] else 'n', a['op'], a['v']['t']))
    elif ev == 'Load':
        f.append('%s,%s,%s,arg=%s' % (a['format'], a['part'], a['op'], a['arg']))
    elif ev in ('ConcRun', 'ConcFree'):
        f.append('ops=' + '+'.join(o['op'] for o in a['ops']))
        f.append('members=' + '+'.join(m['kind'] + ('S' if m['standoff'] else '') + ('C' if m['changed'] else '') for m in a['shape']['members']))
    elif ev == 'Query':
        def kinds(q):
            return '+'.join((c['k'] + ('@m' if c['q'] else '') + ('@rec' if c['rec'] else '') + (':' + c['b'] if c['k'] in ('Relation', 'Text') else '')
                             + ('(' + '+'.join(u['k'] + ('@m' if u['q'] else '') for u in c['u']) + ')' if c['u'] else '')) for c in q['cs'])
        q = a['q']
        f.append('form=' + a['form'])
        f.append(q['rt'] + '[' + kinds(q) + ']')
        for sq in q['subs']:
            f.append(('opt ' if sq['opt'] else '') + 'sub ' + sq['rt'] + '[' + kinds(sq) + ']')
    elif ev == 'Parse':
        f.append('mutated' if a['mutated'] else ('built' if a['built'] else 'grammar'))
        kinds = sorted(set(c['k'] for c in a['ast'].get('cs', [])))
        if kinds:
            f.append('cs=' + '+'.join(kinds))
        if a['ast'].get('subs'):
            f.append('subs')
        if a['mutated']:
            f.append('text=' + (rec.get('api') or {}).get('text', '')[:60])
        sty = (rec.get('_reset') or {}).get('style', 0)
        if sty in (1, 4):
            f.append('idstyle=' + {1: 'quote', 4: 'pipe'}[sty])
    elif ev == 'WebAnno':
        f.append('tmpl=%s,ns=%s' % (a['tmpl'], a['ns']))
    elif ev == 'RoundTrip':
        f.append('format=' + a['format'])
        f.append('layout=' + a['layout'])
        if a.get('edit', {}).get('has'):
            f.append('edit=' + a['edit']['kind'])
    elif ev == 'ProtectText':
        f.append('mode=' + a['mode'])
    elif ev == 'RelatedRow':
        f.append('via=' + a['via'])
        f.append('A=%d' % len(a['A']))
    elif ev in ('TestRelation', 'RelatedText', 'TestRelationRow'):
        o = a['o']
        f.append('op=' + o['op'] + (',all' if o['all'] else '') + (',neg' if o['negate'] else '') + (',ws' if o['ws'] else '') + (',limit' if o['limit'] else ''))
        f.append('A=%d' % len(a['A']))
        if 'B' in a:
            f.append('B=%d' % len(a['B']))
    elif ev == 'Lookup':
        f.append('kind=' + a['kind'])
        f.append('by=' + a['ref']['by'])
    return f


def fingerprint(m, diffs):
    rec, exp = m['rec'], m['exp']
    paths = sorted(set(norm_path(p) for p, _, _ in diffs))
    if exp.get('readonly') and rec['ev'] == 'FindData':
        return '|'.join(['FindData', 'got=' + rec['outcome'], ','.join(paths), ','.join(arg_features(rec))])
    if exp.get('readonly') and rec['ev'] == 'Load':
        return '|'.join(['Load', 'got=' + rec['outcome'], ','.join(paths), ','.join(arg_features(rec))])
    if exp.get('readonly') and rec['ev'] in ('ConcRun', 'ConcFree'):
        return '|'.join(['ConcRun', 'got=' + rec['outcome'], ','.join(paths), ','.join(arg_features(rec))])
    if exp.get('readonly') and rec['ev'] == 'Query':
        return '|'.join(['Query', 'got=' + rec['outcome'], ','.join(paths), ','.join(arg_features(rec))])
    if exp.get('readonly') and rec['ev'] == 'Parse':
        return '|'.join(['Parse', 'got=' + rec['outcome'], ','.join(sorted(set(re.sub(r'\[\*\]', '', p) for p in paths))), ','.join(arg_features(rec))])
    if exp.get('readonly') and rec['ev'] in ('TestRelationRow', 'RelatedRow', 'WebAnno'):
        return '|'.join([rec['ev'], 'exp=ro', 'got=' + rec['outcome'], ','.join(paths), ','.join(arg_features(rec))])
    if exp.get('roundtrip'):
        classes = sorted(set(re.sub(r'^(view\.\w+(\[\*\])?(\.\w+)?(\[\*\])?(\.\w+)?|st\.\w+(\[\*\])?(\.\w+)?|api\.\w+(\[\*\])?(\.\w+)?|\w+).*$', r'\1', p) for p in paths))
        return '|'.join([rec['ev'], 'got=' + rec['outcome'], ','.join(classes), ','.join(arg_features(rec))])
    # collapse detail: keep top-level classes only
    classes = sorted(set(re.sub(r'^(st\.\w+(\[\*\])?(\.\w+)?|api\.\w+(\[\*\])?(\.\w+)?|\w+).*$', r'\1', p) for p in paths))
    feats = arg_features(rec)
    if exp.get('why'):
        feats.append('why=' + exp['why'])
    return '|'.join([rec['ev'], 'exp=' + str(exp.get('outcome', 'ro')), 'got=' + rec['outcome'], ','.join(classes), ','.join(feats)])


def load_known():
    p = os.path.join(VERIF, 'KNOWN_FINDINGS.json')
    if not os.path.exists(p):
        return []
    return json.load(open(p))['findings']


def match_known(known, prop, fp):
    for k in known:
        if k.get('status') != 'open' or k['property'] != prop:
            continue
        pat = k['fingerprint']
        if pat == fp or (k.get('regex') and re.fullmatch(pat, fp)):
            return k
    return None


def save_replay(prop, m, fp):
    d = os.path.join(VERIF, 'replays', prop)
    os.makedirs(d, exist_ok=True)
    body = json.dumps({'kind': 'store', 'reset': m.get('reset'), 'ops': m['ops'], 'fingerprint': fp})
    h = hashlib.sha1(body.encode()).hexdigest()[:12]
    path = os.path.join(d, h + '.json')
    open(path, 'w').write(body + '\n')
    return path
