#!/usr/bin/env python3
"""Run the registered quick check(s) against every seeded defect in /verif/seeded (applied to /repo's working tree,
undone afterwards). usage: run_seeds.py [id ...] [--props C01,C02] [--scratch]  -> prints a table, writes seeded/RESULTS.json
--scratch: apply the patch in a scratch worktree of /repo's HEAD (/tmp/seedrepo) and point the harness at it
(VERIF_REPO), so that /repo itself stays untouched while a long run uses it."""
import json, os, subprocess, sys, time
VERIF = os.path.dirname(os.path.dirname(os.path.abspath(__file__)))
ids = [a for a in sys.argv[1:] if not a.startswith('--')]
SCRATCH = '--scratch' in sys.argv
REPO = '/repo'
if SCRATCH:
    REPO = '/tmp/seedrepo'
    if not os.path.isdir(REPO):
        subprocess.run(['git', '-C', '/repo', 'worktree', 'add', '--detach', REPO, 'HEAD'], check=True, capture_output=True)
    head = subprocess.run(['git', '-C', '/repo', 'rev-parse', 'HEAD'], capture_output=True, text=True).stdout.strip()
    subprocess.run(['git', '-C', REPO, 'checkout', '-q', '--detach', head], check=True)
    subprocess.run(['git', '-C', REPO, 'checkout', '-q', '--', '.'], check=True)
extra = [a.split('=')[1].split(',') for a in sys.argv[1:] if a.startswith('--props=')]
seeds = sorted(d for d in os.listdir(os.path.join(VERIF, 'seeded')) if os.path.isdir(os.path.join(VERIF, 'seeded', d)))
if ids:
    seeds = [s for s in seeds if s in ids]
resfile = os.path.join(VERIF, 'seeded', 'RESULTS.json')
results = json.load(open(resfile)) if os.path.exists(resfile) else {}
assert subprocess.run(['git', '-C', REPO, 'status', '--porcelain'], capture_output=True, text=True).stdout.strip() == '', '/repo not clean'
import shutil, tempfile
backup = tempfile.mkdtemp(prefix='evidence_backup_', dir=os.path.join(VERIF, 'work'))
shutil.copytree(os.path.join(VERIF, 'evidence'), os.path.join(backup, 'evidence'))
for s in seeds:
    d = os.path.join(VERIF, 'seeded', s)
    meta = json.load(open(os.path.join(d, 'meta.json')))
    props = extra[0] if extra else meta.get('check_with', [meta['property']])
    if subprocess.run(['git', '-C', REPO, 'apply', os.path.join(d, 'patch.diff')]).returncode != 0:
        results.setdefault(s, {})['_'] = dict(exit=None, note='patch does not apply to the current HEAD')
        print(f'{s:10s} patch does not apply', flush=True)
        continue
    try:
        for p in props:
            t0 = time.time()
            env = dict(os.environ, VERIF_REPO=REPO) if SCRATCH else dict(os.environ)
            r = subprocess.run([os.path.join(VERIF, 'check'), p, '--tier', 'quick'], capture_output=True, text=True, cwd=VERIF, env=env)
            viol = [l for l in r.stdout.splitlines() if l.startswith('VIOLATION')]
            fps = [l.strip() for l in r.stdout.splitlines() if l.strip().startswith('fingerprint:')]
            results.setdefault(s, {})[p] = dict(exit=r.returncode, violations=len(viol), first=fps[:2], wall=round(time.time() - t0))
            print(f'{s:10s} {p}: exit={r.returncode} violations={len(viol)} {fps[:1]}', flush=True)
    finally:
        subprocess.run(['git', '-C', REPO, 'checkout', '--', '.'], check=True)
json.dump(results, open(resfile, 'w'), indent=1, sort_keys=True)
# evidence files must describe runs on the unchanged tree: restore them
shutil.rmtree(os.path.join(VERIF, 'evidence'))
shutil.copytree(os.path.join(backup, 'evidence'), os.path.join(VERIF, 'evidence'))
shutil.rmtree(backup)
# leave evidence files as produced on the unchanged tree
