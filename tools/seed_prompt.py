#!/usr/bin/env python3
"""Prints the prompt for a seeding sub-agent: tools/seed_prompt.py C04 a  (creates the scratch worktree /tmp/wt_<id><tag>)"""
import json, os, subprocess, sys
prop, tag = sys.argv[1], sys.argv[2]
VERIF = os.path.dirname(os.path.dirname(os.path.abspath(__file__)))
p = [json.loads(l) for l in open(os.path.join(VERIF, 'properties.jsonl')) if json.loads(l)['id'] == prop][0]
wt = f'/tmp/wt_{prop}{tag}'
out = f'/tmp/seed_out/{prop}{tag}'
if not os.path.isdir(wt):
    subprocess.run(['git', '-C', '/repo', 'worktree', 'add', '--detach', wt, 'HEAD'], check=True, capture_output=True)
os.makedirs(out, exist_ok=True)
hint = sys.argv[3] if len(sys.argv) > 3 else ''
print(f"""You are helping to evaluate a verification framework for the Rust library stam-rust (a stand-off text annotation store).
You have your own scratch git worktree of the library at {wt} (a checkout of the current HEAD). Work ONLY there. Do NOT read or touch /verif or /repo, and do not look for any verification material elsewhere: what you write must be independent of it.
No network: use `cargo ... --offline` (set CARGO_NET_OFFLINE=true). A full test run is `cargo test --offline --no-fail-fast` in the worktree (about 1-2 minutes the first time). One test, `test_write_include`, is known to be flaky; ignore it.

The library is supposed to have this semantic property ({prop}: {p['title']}):

  STATEMENT: {p['statement']}
  QUANTIFIED OVER: {p['quantifier']['text']}
  Relevant code: {json.dumps(p['anchors'].get('mechanism'))}
  Observable at: {json.dumps(p['anchors'].get('observe_at'))}

YOUR TASK: invent ONE realistic change to the library source (under src/) that BREAKS this property while (a) the crate still compiles without new warnings-as-errors, and (b) the entire existing test suite (`cargo test --offline --no-fail-fast`) still passes. The change should look like something a developer could plausibly commit (an "optimisation", a refactoring slip, an off-by-one, a wrong condition, a forgotten case, two cooperating sites that each look fine alone) - not sabotage that ordinary use would expose at once. It must need something SPECIFIC to manifest: a particular multi-step sequence of operations, an unusual input, a particular position/size, a particular combination of options. {hint}

Deliver, in the directory {out}/ :
  1. patch.diff  - `git diff` of your change to src/ only (must apply with `git apply` to a clean checkout of HEAD; do not include the demo test in it)
  2. demo.rs     - a self-contained Rust integration test file (it will be copied to tests/demo_seed.rs and run with `cargo test --offline --test demo_seed`) that uses only the public API of the `stam` crate, PASSES on the unchanged library and FAILS (assertion failure or panic) with your change applied. Include at least one control test that passes in both cases.
  3. meta.json   - {{"property": "{prop}", "summary": "<what the change is>", "needs": "<what exactly is needed for the breakage to manifest and what does NOT expose it>", "files": [...], "ran": ["<commands you ran and their results>"]}}

Before finishing you MUST verify yourself, in the worktree: (1) clean tree + demo passes; (2) with the patch the full existing suite passes; (3) with the patch the demo fails. Then restore the worktree to the clean state (git checkout -- . ; remove tests/demo_seed.rs). Never use `git stash` (the stash is shared with other worktrees). Keep the change small (a few lines to a few dozen). Report briefly what you did.""")
