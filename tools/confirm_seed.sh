#!/bin/bash
# usage: confirm_seed.sh <seed-out-dir (contains patch.diff demo.rs meta.json)> <id>
# Confirms in a scratch worktree of /repo HEAD that (1) demo passes without the patch, (2) with the patch the
# existing suite still passes and (3) the demo fails. On success copies the seed to /verif/seeded/<id>/.
set -u
src=$1; id=$2
wt=/tmp/confirm_wt
export CARGO_NET_OFFLINE=true
if [ ! -d $wt ]; then git -C /repo worktree add --detach $wt HEAD >/dev/null 2>&1 || exit 2; fi
cd $wt && git checkout -q --detach $(git -C /repo rev-parse HEAD) && git checkout -q -- . && rm -f tests/demo_seed.rs
cp $src/demo.rs tests/demo_seed.rs
clean=$(cargo test --offline --test demo_seed 2>&1 | grep -E "^test result" | head -1)
if ! git apply --check $src/patch.diff 2>/dev/null; then echo "$id: PATCH DOES NOT APPLY to current HEAD"; rm -f tests/demo_seed.rs; exit 1; fi
git apply $src/patch.diff
suite=$(cargo test --offline --no-fail-fast --lib --test api --test lowlevel 2>&1 | grep -E "^test result|^test .* FAILED" | grep -v test_write_include | tr '\n' ' ')
patched=$(cargo test --offline --test demo_seed 2>&1 | grep -E "^test result" | head -1)
git checkout -q -- . ; rm -f tests/demo_seed.rs
echo "$id: clean-demo: $clean"
echo "$id: patched-suite: $suite"
echo "$id: patched-demo: $patched"
if echo "$clean" | grep -q "ok\." && echo "$patched" | grep -q "FAILED" && ! echo "$suite" | grep -q "FAILED\. [0-9]* passed; [1-9]"; then
  mkdir -p /verif/seeded/$id && cp $src/patch.diff $src/demo.rs $src/meta.json /verif/seeded/$id/ && echo "$id: CONFIRMED"
else
  echo "$id: NOT CONFIRMED"
fi
