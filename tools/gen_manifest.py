#!/usr/bin/env python3
"""Regenerates /verif/MANIFEST.json from the table below (one place to edit when a property is claimed)."""
import json, os, subprocess
VERIF = os.path.dirname(os.path.dirname(os.path.abspath(__file__)))

NOTE = ('Bounded: TLC explores the specification exhaustively only for small constants and validates finitely many generated '
        'histories / tables; TLC, the Json/IOUtils modules, the harness projection (harness/src/project.rs, observe.rs, '
        'reads.rs) and the read-only dump hook are trusted. Identifiers/values come from fixed concretisation pools.')
TECH = ('explicit TLA+ specification (spec/{mods}) model-checked with TLC; TLC-generated and simulated behaviours replayed on '
        'the implementation and validated by TLC trace validation (spec/Trace.tla)')

CLAIMS = {
    'C01': dict(mods='StamStore.tla', text='TLC checks IndexExact/IndexChronological/KeyDataExact on the bounded StamStore model; every step of TLC-emitted and simulated histories replayed on the real store is validated by TLC (Trace.tla): raw reverse indices from the dump hook, position index and the answers of every public reverse lookup must equal what the specification derives from the forward references.'),
    'C02': dict(mods='StamStore.tla', text='TLC checks NoDangling and Monotone on the bounded model (chains, diamonds, shared data, metadata targets); removal steps of generated histories are validated against RemoveAnnotation/RemoveResource/RemoveDataset/RemoveData/RemoveKey of the specification, and after each step an exercise pass (iterate, query, serialise) must succeed.'),
    'C03': dict(mods='StamStore.tla, StamApi.tla', text='TLC checks IdMapExact on the bounded model; id maps dumped from the real store must equal the specification\'s after every step (duplicate ids, id-less items, removals, strip-ids); Lookup events compare resolution of ids, handles and temporary ids with Resolve().'),
    'C04': dict(mods='StamOffsets.tla, StamStore.tla, StamRead.tla', text='Annotate with every cursor pair (both alignments, out-of-range, inverted, zero-width, positive end-aligned) against every resource (incl. empty text, 1-4 byte characters) and relative to annotations nested to depth 3 must be accepted exactly when OffValid holds and store exactly ResolveIn; text selection by offset on resources, ranges and annotations, the text of every annotation and the offsets reported in all four modes must equal StamOffsets (Report re-resolves to the same range).'),
    'C05': dict(mods='StamSerial.tla, StamStore.tla', text='RoundTrip is an action of the store state machine: every generated history is extended with (and interrupted by) STAM JSON round trips - to a string (pretty and compact), to a file, and with resources and/or datasets in stand-off @include files - after which the history continues on the reloaded store. TLC requires the reloaded state to satisfy every store invariant (StateOK: indices, id maps, no dangling references) and its view (live items by rank: ids, texts, keys, typed values, targets with kind, referenced items, absolute ranges and alignment mode, data references) to equal the view of the specification state; the digest of a second serialisation must equal the first.'),
    'C06': dict(mods='StamRelations.tla, StamRead.tla, MC_Laws.tla', text='TLC checks on MC_Laws that related text under a negated operator is the complement within the known selections; for every set of known selections of a text reachable within the depth (nested, crossing, adjacent, zero-width, touching the end, both halves) and every reference (every range bound or unbound, every pair of known selections, every annotation) the result of related_text under every operator x all x negate x whitespace x limit combination must be exactly the set RelatedTextExpected derives from the relation definitions, each selection once.'),
    'C07': dict(mods='StamText.tla, StamRead.tla, MC_Laws.tla', text='TLC checks on MC_Laws that Split and Segmentation partition the searched range and that matches carry the needle; for every text up to the bound over four alphabets (1-4 byte characters, case pairs, a character whose lower-casing changes length, whitespace), on the whole resource and on every sub-range, find / nocase / split / trim / regex (capture groups, alternation, optional groups) / sequence must return exactly the ranges (and group numbers) StamText derives; segmentation for every set of known selections.'),
    'C09': dict(mods='StamQuery.tla, Gen_Query.tla', text='the STAMQL grammar is a menu of query ASTs in Gen_Query.tla (six result types, every constraint kind with its qualifiers, operators and typed values, offsets, unions, limits, one and two levels of (optional, multiple) sub-queries) printed by the canonical printer PrintQ of the specification; TLC also derives token-level mutations (truncation after every token, deletion, duplication, junk and extreme numeric literals in every position) and hand-written inputs outside the SELECT grammar. For every text the harness parses, prints, re-parses and re-prints, and builds every menu query programmatically; TLC requires (ParseOK): never a panic; for grammar and built queries acceptance, the parsed structure equal to the intended AST, and print-parse-print a fixpoint in structure and text; for mutated input whatever is accepted must also be a fixpoint.'),
    'C10': dict(mods='StamStore.tla', text='TLC checks KeyDataExact and the insert_data sharing rule on the bounded model; datasets, keys, data items and key_data_map of the real store must equal the specification\'s after every step of generated histories.'),
    'C11': dict(mods='StamSerial.tla, StamStore.tla', text='every generated history (incl. removals leaving tombstones) is extended with and interrupted by CBOR save/load; TLC requires the reloaded projection - items, handles, tombstones, id maps, every raw reverse index row, position index - to be identical to the specification state, all public reverse lookups to answer as before, and the history (further mutations, lookups, text queries) to continue on the loaded store with every later step validated as usual.'),
    'C12': dict(mods='StamText.tla, StamRead.tla', text='Utf8Byte/ByteToChar for every position and byte offset (incl. beyond the text and inside characters) on resources, ranges and annotations must equal ByteOf/CharOf of StamText under milestone intervals 0,1,2,3,7,100, before and after annotations populate the position index; the specification has no configuration variable, so one specification must accept the traces of every configuration (ShrinkToFit is an action that leaves the state unchanged); the position index dump must carry exact byte offsets.'),
    'C13': dict(mods='StamRelations.tla, StamRead.tla, MC_Laws.tla', text='TLC checks the algebraic laws (converses, symmetry, implications of equals, negation = complement, singleton sets = members, embeds/embedded converse on sets) on MC_Laws over all ranges and all sets of up to two ranges; the implementation\'s complete truth table (test / test_set on selections and selection sets) for every range and every set of up to two ranges, every operator and every all x negate x whitespace x limit combination is recomputed by TLC from StamRelations and compared cell by cell (a panic is a cell value no expectation contains).'),
    'C14': dict(mods='StamStore.tla', text='every failing request of the generated histories (unknown items, invalid offsets, duplicate ids, nested complex selectors, missing target, invalid data) must leave the full projection and all API answers equal to the pre-state (UNCHANGED in the specification) and the history continues on the same store.'),
    'C15': dict(mods='StamSerial.tla, StamStore.tla', text='as C05 for STAM CSV: the view with values reduced to their text (ValText) must be preserved over save/load of the store manifest, dataset, annotation and text files; identifiers come from the plain pool (no list separator); the reloaded store must satisfy StateOK and the history continues on it.'),
    'C16': dict(mods='StamTranspose.tla, StamStore.tla', text='Transpose(src, via) followed by adding the returned annotations is an action of the store state machine, specified exactly (which side the source lies in, how it is cut at fragment boundaries, where every piece maps to in every other side, the re-segmented copy, the new transposition, copied data; failure leaves the store unchanged) and validated like every other mutation over every source range of three texts sharing re-ordered fragments, over a two-sided, a three-sided and a simple transposition, and back over the transposition that was returned; TLC checks on the bounded model that every transposition in the store (incl. the returned ones) links piecewise identical text.'),
    'C17': dict(mods='StamWebAnno.tla', text='for every annotation of every reachable store (all selector kinds incl. complex targets with key/data sub-selectors, values of every type, identifiers and strings decorated with quotes, backslashes, control and non-BMP characters) and the export configurations (namespaces + extra context, extra target template) the harness parses the exporter output; TLC requires it to be one well-formed JSON object whose text targets are exactly the annotation text selections (resource, start, end) in order, whose template targets repeat them, whose other named items are the targeted resources / datasets / annotations, and whose body carries every data item with the same key, content and JSON type (WebAnnoExpected).'),
    'C18': dict(mods='StamValidation.tla, StamSerial.tla', text='ProtectText(mode) is an action of the store state machine (validation dataset, shared validation data, index deltas) validated like every other mutation; TLC checks ProtectedOK on the bounded model (after protecting in any mode every annotation that selects text is valid); every generated history is followed by Validate, a JSON round trip with stand-off text files, Validate, a round trip during which one character of a text file is substituted, inserted or deleted, and Validate: the counts and the per-annotation verdicts must equal Verdict() of the specification (checksums are modelled as an injective function of the text; the harness computes SHA-1 itself to map stored digests back).'),
}

NOT_YET = 'check not built yet (work in progress; see DESIGN.md section 10)'
NA = {}

ALL = ['C%02d' % i for i in range(1, 21)]


def main():
    hooks = subprocess.run(['git', '-C', '/repo', 'log', '--format=%h %s'], capture_output=True, text=True).stdout.splitlines()
    hook_commits = [l.split()[0] for l in reversed(hooks) if l.split(' ', 1)[1].startswith('verif hook:')]
    m = dict(version=1, setup_cmd='./check --setup',
             hooks=dict(guard='stam_verif',
                        enable='harness/.cargo/config.toml sets rustflags --cfg stam_verif (path dependency on /repo, rebuilt by every check)',
                        baseline_off_cmd='cd /repo && cargo test --workspace --no-fail-fast --offline',
                        source_commits=hook_commits, add_only=True),
             engines=[dict(name='tla-trace', path='/verif/check', serves_properties=sorted(CLAIMS),
                           kind_free_text='TLA+ specification + TLC model checking + TLC trace validation of harness-recorded executions')],
             checks=[], not_applicable=[],
             notes='Fixed defects and open findings are listed in KNOWN_FINDINGS.json; seeded defects and which check catches them in seeded/ and DESIGN.md.')
    for p in ALL:
        if p in CLAIMS:
            c = CLAIMS[p]
            m['checks'].append(dict(property_id=p, quick_cmd=f'./check {p} --tier quick', thorough_cmd=f'./check {p} --tier thorough',
                                    evidence_file=f'/verif/evidence/{p}.json', replay_cmd_template=f'./check {p} --replay {{path}}',
                                    engine='tla-trace',
                                    level_claimed=dict(category='model_checking', text=c['text'], design_ref=f'DESIGN.md section 3, {p}'),
                                    level_note=c.get('note', NOTE), technique=c.get('technique', TECH.format(mods=c['mods']))))
        else:
            m['not_applicable'].append(dict(property_id=p, reason=NA.get(p, NOT_YET)))
    json.dump(m, open(os.path.join(VERIF, 'MANIFEST.json'), 'w'), indent=1)
    print('claimed:', ' '.join(sorted(CLAIMS)), '| not claimed:', ' '.join(x['property_id'] for x in m['not_applicable']))


if __name__ == '__main__':
    main()
