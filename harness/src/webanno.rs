//! C17: export an annotation as a W3C Web Annotation, parse the output and map it back to abstract terms.
//! IRIs are mapped back through the library's public iri() functions; values through the concretisation table.
use crate::apply::{bi, Ctx};
use crate::concretise::*;
use crate::model::*;
use serde_json::{json, Value};
use stam::*;
use std::collections::HashMap;

const RES_PREFIX: &str = "http://r.example/";
const SET_PREFIX: &str = "http://s.example/";
const ANN_PREFIX: &str = "http://a.example/";

fn val_from_json(v: &Value, style: IdStyle) -> Val {
    match v {
        Value::Null => Val::null(),
        Value::Bool(b) => Val { t: "bool".into(), s: String::new(), n: *b as i64, l: vec![] },
        Value::Number(n) => {
            if let Some(i) = n.as_i64() {
                Val::int(i)
            } else {
                val_of(&DataValue::Float(n.as_f64().unwrap_or(f64::NAN)), style)
            }
        }
        Value::String(s) => {
            // datetimes are exported as strings
            if let Ok(dt) = DateTime::parse_from_rfc3339(s) {
                if s.len() >= 20 && s.as_bytes()[4] == b'-' {
                    return val_of(&DataValue::Datetime(dt), style);
                }
            }
            val_of(&DataValue::String(s.clone()), style)
        }
        Value::Array(a) => Val { t: "list".into(), s: String::new(), n: 0, l: a.iter().map(|x| val_from_json(x, style)).collect() },
        // a string value that is an IRI is exported as a node { "id": iri }: the same content
        Value::Object(o) if o.len() == 1 && o.get("id").map(|x| x.is_string()).unwrap_or(false) => {
            val_of(&DataValue::String(o["id"].as_str().unwrap().to_string()), style)
        }
        Value::Object(_) => Val { t: "object".into(), s: format!("?{}", v), n: 0, l: vec![] },
    }
}

pub fn webanno(ctx: &Ctx, a: &Value) -> Value {
    let style = ctx.style;
    let store = &ctx.store;
    let none = json!({"ok": false, "wf": false, "targets": [], "others": [], "extra": [], "body": []});
    let r: Ref = serde_json::from_value(a["ann"].clone()).expect("harness: ref");
    let ann = match store.annotation(bi::<Annotation>(&r, style)) {
        Some(x) => x,
        None => return none,
    };
    let mut cfg = WebAnnoConfig::default();
    cfg.default_resource_iri = RES_PREFIX.to_string();
    cfg.default_set_iri = SET_PREFIX.to_string();
    cfg.default_annotation_iri = ANN_PREFIX.to_string();
    let tmpl = a["tmpl"].as_bool().unwrap_or(false);
    if tmpl {
        cfg.extra_target_template = Some("{resource}|{begin}|{end}".to_string());
    }
    if a["ns"].as_bool().unwrap_or(false) {
        cfg = cfg.with_namespace("s".to_string(), SET_PREFIX.to_string());
        cfg.extra_context.push("http://c.example/ctx.jsonld".to_string());
    }
    let out = ann.to_webannotation(&cfg);
    if out.is_empty() {
        return none;
    }
    let parsed: Value = match serde_json::from_str(&out) {
        Ok(v @ Value::Object(_)) => v,
        _ => return json!({"ok": true, "wf": false, "targets": [], "others": [], "extra": [], "body": []}),
    };
    // IRI tables from the library's own public iri() functions
    let mut res_iri: HashMap<String, i64> = HashMap::new();
    for r in store.resources() {
        if let Some(iri) = r.iri(&cfg.default_resource_iri) {
            res_iri.insert(iri.to_string(), r.handle().as_usize() as i64 + 1);
        }
    }
    let mut set_iri: HashMap<String, i64> = HashMap::new();
    let mut key_iri: HashMap<String, (i64, i64)> = HashMap::new();
    for s in store.datasets() {
        // note: datasets named as a target are exported with the *resource* prefix
        if let Some(iri) = s.iri(&cfg.default_resource_iri) {
            set_iri.insert(iri.to_string(), s.handle().as_usize() as i64 + 1);
        }
        for k in s.keys() {
            if let Some(iri) = k.iri(&cfg.default_set_iri) {
                key_iri.insert(cfg.uri_to_namespace(&iri).to_string(), (s.handle().as_usize() as i64 + 1, k.handle().as_usize() as i64 + 1));
            }
        }
    }
    let mut ann_iri: HashMap<String, i64> = HashMap::new();
    for x in store.annotations() {
        if let Some(iri) = x.iri(&cfg.default_annotation_iri) {
            ann_iri.insert(iri.to_string(), x.handle().as_usize() as i64 + 1);
        }
    }
    let mut targets: Vec<Value> = Vec::new();
    let mut others: Vec<Value> = Vec::new();
    let mut extra: Vec<Value> = Vec::new();
    fn walk(
        v: &Value,
        res_iri: &HashMap<String, i64>,
        set_iri: &HashMap<String, i64>,
        ann_iri: &HashMap<String, i64>,
        targets: &mut Vec<Value>,
        others: &mut Vec<Value>,
        extra: &mut Vec<Value>,
    ) {
        match v {
            Value::Array(items) => {
                for i in items {
                    walk(i, res_iri, set_iri, ann_iri, targets, others, extra);
                }
            }
            Value::String(s) => {
                // the extra target template "{resource}|{begin}|{end}"
                let parts: Vec<&str> = s.rsplitn(3, '|').collect();
                if parts.len() == 3 {
                    let r = res_iri.get(parts[2]).copied().unwrap_or(-1);
                    extra.push(json!([r, parts[1].parse::<i64>().unwrap_or(-1), parts[0].parse::<i64>().unwrap_or(-1)]));
                } else {
                    extra.push(json!([-1, -1, -1]));
                }
            }
            Value::Object(o) => {
                if let Some(src) = o.get("source") {
                    let r = src.as_str().and_then(|s| res_iri.get(s).copied()).unwrap_or(-1);
                    let b = o.get("selector").and_then(|s| s.get("start")).and_then(|x| x.as_i64()).unwrap_or(-1);
                    let e = o.get("selector").and_then(|s| s.get("end")).and_then(|x| x.as_i64()).unwrap_or(-1);
                    targets.push(json!([r, b, e]));
                } else if let Some(items) = o.get("items") {
                    walk(items, res_iri, set_iri, ann_iri, targets, others, extra);
                } else if o.contains_key("id") {
                    let id = o.get("id").and_then(|x| x.as_str());
                    match o.get("type").and_then(|x| x.as_str()) {
                        Some("Text") => others.push(json!(["Res", id.and_then(|s| res_iri.get(s).copied()).unwrap_or(-1)])),
                        Some("Dataset") => others.push(json!(["Set", id.and_then(|s| set_iri.get(s).copied()).unwrap_or(-1)])),
                        Some("Annotation") => others.push(json!(["Ann", id.and_then(|s| ann_iri.get(s).copied()).unwrap_or(-1)])),
                        None if o.get("id") == Some(&Value::Null) => others.push(json!(["Ann", 0])),
                        _ => others.push(json!(["?", -1])),
                    }
                } else {
                    others.push(json!(["?", -1]));
                }
            }
            _ => others.push(json!(["?", -1])),
        }
    }
    if let Some(t) = parsed.get("target") {
        walk(t, &res_iri, &set_iri, &ann_iri, &mut targets, &mut others, &mut extra);
    }
    let mut body: Vec<Value> = Vec::new();
    if let Some(Value::Object(b)) = parsed.get("body") {
        for (pred, v) in b.iter() {
            if pred == "type" || pred == "id" {
                continue;
            }
            let (s, k) = key_iri.get(pred).copied().unwrap_or((-1, -1));
            // values of the text-validation dataset are texts / digests of texts (see project.rs)
            let tvkey: Option<String> = if s > 0 {
                store.dataset(AnnotationDataSetHandle::new((s - 1) as usize)).and_then(|set| {
                    if set.id() == Some(TV_SET) {
                        set.key(DataKeyHandle::new((k - 1) as usize)).and_then(|key| key.id().map(|x| x.to_string()))
                    } else {
                        None
                    }
                })
            } else {
                None
            };
            let val = match (tvkey, v) {
                (Some(keyid), Value::String(text)) => crate::project::tv_val(&keyid, &DataValue::String(text.clone()), style),
                _ => val_from_json(v, style),
            };
            body.push(json!({"set": s, "key": k, "val": val}));
        }
    }
    // data of the Web Annotation vocabulary with these keys is exported as a member of the annotation itself
    if let Some(wa) = store.dataset(WA_SET) {
        for name in ["created", "creator", "motivation"] {
            if let (Some(v), Some(key)) = (parsed.get(name), wa.key(name)) {
                body.push(json!({"set": wa.handle().as_usize() + 1, "key": key.handle().as_usize() + 1, "val": val_from_json(v, style)}));
            }
        }
    }
    json!({"ok": true, "wf": true, "targets": targets, "others": others, "extra": extra, "body": body})
}
