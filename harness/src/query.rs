//! STAMQL (C09 / C08): abstract query ASTs <-> stam::Query, token printing, Parse events.
//! The AST shapes mirror spec/StamQuery.tla (every record has one fixed shape).
use crate::concretise::*;
use crate::model::*;
use serde::{Deserialize, Serialize};
use serde_json::{json, Value};
use stam::*;
use std::panic::{catch_unwind, AssertUnwindSafe};

#[derive(Serialize, Deserialize, Clone, Debug, PartialEq)]
pub struct CAst {
    pub k: String,
    pub a: String,
    pub b: String,
    pub q: bool,
    pub rec: bool,
    pub off: Off,
    pub op: String,
    pub v: Val,
    pub lb: i64,
    pub le: i64,
    pub u: Vec<CAst>,
}

impl CAst {
    fn new(k: &str) -> Self {
        CAst { k: k.into(), a: String::new(), b: String::new(), q: false, rec: false, off: Off::none(), op: String::new(), v: Val::null(), lb: 0, le: 0, u: vec![] }
    }
}

#[derive(Serialize, Deserialize, Clone, Debug, PartialEq)]
pub struct QAst {
    pub qt: String,
    pub rt: String,
    pub name: String,
    pub opt: bool,
    pub cs: Vec<CAst>,
    pub subs: Vec<QAst>,
}

impl QAst {
    pub fn empty() -> Self {
        QAst { qt: String::new(), rt: String::new(), name: String::new(), opt: false, cs: vec![], subs: vec![] }
    }
}

#[derive(Deserialize, Clone, Debug)]
pub struct Tok {
    pub t: String,
    pub s: String,
    pub v: Val,
}

fn leak(s: String) -> &'static str {
    Box::leak(s.into_boxed_str())
}

/// quote a string the way STAMQL expects it (a backslash protects a double quote)
fn quote(s: &str) -> String {
    format!("\"{}\"", s.replace('"', "\\\""))
}

/// what the parser hands back for a quoted argument still carries the protecting backslashes
fn unquote(s: &str) -> String {
    s.replace("\\\"", "\"")
}

fn text_codes(v: &Val) -> Vec<i64> {
    v.l.iter().map(|x| x.n).collect()
}

fn cursor_str(v: &Val) -> String {
    if v.s == "B" {
        format!("{}", v.n)
    } else if v.n == 0 {
        "-0".to_string()
    } else {
        format!("{}", v.n)
    }
}

fn value_str(v: &Val, style: IdStyle) -> String {
    match v.t.as_str() {
        "str" => quote(&style.conc(&v.s)),
        "int" => format!("{}", v.n),
        "float" => {
            let f = float_of(v.n);
            if f.fract() == 0.0 { format!("{:.1}", f) } else { format!("{:?}", f) }
        }
        "bool" => (if v.n != 0 { "true" } else { "false" }).to_string(),
        "null" => "null".to_string(),
        "any" => "any".to_string(),
        "datetime" => match value_of(v, style) {
            DataValue::Datetime(d) => d.to_rfc3339(),
            _ => unreachable!(),
        },
        "raw" => v.s.clone(),
        other => panic!("harness: value type {} has no STAMQL syntax", other),
    }
}

pub fn tokens_to_text(toks: &[Tok], style: IdStyle) -> String {
    let mut out = String::new();
    for (i, t) in toks.iter().enumerate() {
        let piece = match t.t.as_str() {
            "kw" | "raw" => t.s.clone(),
            "id" => quote(&style.conc(&t.s)),
            "var" => format!("?{}", t.s),
            "int" => format!("{}", t.v.n),
            "cur" => cursor_str(&t.v),
            "val" => value_str(&t.v, style),
            "txt" => quote(&text_of(&text_codes(&t.v))),
            other => panic!("harness: unknown token type {}", other),
        };
        // the terminating ';' is attached to the preceding token, like the library prints it
        if piece == ";" || i == 0 {
            out.push_str(&piece);
        } else {
            out.push(' ');
            out.push_str(&piece);
        }
    }
    out
}

// ------------------------------------------------------------------------------------------ projection

fn rt_str(t: Option<Type>) -> String {
    match t {
        Some(Type::Annotation) => "ANNOTATION",
        Some(Type::AnnotationData) => "DATA",
        Some(Type::DataKey) => "KEY",
        Some(Type::TextSelection) => "TEXT",
        Some(Type::TextResource) => "RESOURCE",
        Some(Type::AnnotationDataSet) => "DATASET",
        Some(_) => "?",
        None => "",
    }
    .to_string()
}

fn off_of(o: &Option<Offset>) -> Off {
    match o {
        None => Off::none(),
        Some(o) => {
            let (bk, bv) = match o.begin {
                Cursor::BeginAligned(v) => ("B", v as i64),
                Cursor::EndAligned(v) => ("E", v as i64),
            };
            let (ek, ev) = match o.end {
                Cursor::BeginAligned(v) => ("B", v as i64),
                Cursor::EndAligned(v) => ("E", v as i64),
            };
            Off::new(bk, bv, ek, ev)
        }
    }
}

fn relation_kw(o: &TextSelectionOperator) -> String {
    o.as_str().to_string()
}

fn operator_of(o: &DataOperator, style: IdStyle) -> (String, Val) {
    let s = |x: &str| Val { t: "str".into(), s: style.abs(&unquote(x)), n: 0, l: vec![] };
    let t = |t: &str, n: i64| Val { t: t.into(), s: String::new(), n, l: vec![] };
    match o {
        DataOperator::Any => ("=".into(), t("any", 0)),
        DataOperator::Null => ("=".into(), Val::null()),
        DataOperator::True => ("=".into(), t("bool", 1)),
        DataOperator::False => ("=".into(), t("bool", 0)),
        DataOperator::Equals(x) => ("=".into(), s(x)),
        DataOperator::EqualsInt(n) => ("=".into(), Val::int(*n as i64)),
        DataOperator::EqualsFloat(f) => ("=".into(), val_of(&DataValue::Float(*f), style)),
        DataOperator::GreaterThan(n) => (">".into(), Val::int(*n as i64)),
        DataOperator::GreaterThanOrEqual(n) => (">=".into(), Val::int(*n as i64)),
        DataOperator::LessThan(n) => ("<".into(), Val::int(*n as i64)),
        DataOperator::LessThanOrEqual(n) => ("<=".into(), Val::int(*n as i64)),
        DataOperator::GreaterThanFloat(f) => (">".into(), val_of(&DataValue::Float(*f), style)),
        DataOperator::GreaterThanOrEqualFloat(f) => (">=".into(), val_of(&DataValue::Float(*f), style)),
        DataOperator::LessThanFloat(f) => ("<".into(), val_of(&DataValue::Float(*f), style)),
        DataOperator::LessThanOrEqualFloat(f) => ("<=".into(), val_of(&DataValue::Float(*f), style)),
        DataOperator::ExactDatetime(d) => ("=".into(), val_of(&DataValue::Datetime(*d), style)),
        DataOperator::AfterDatetime(d) => (">".into(), val_of(&DataValue::Datetime(*d), style)),
        DataOperator::AtOrAfterDatetime(d) => (">=".into(), val_of(&DataValue::Datetime(*d), style)),
        DataOperator::BeforeDatetime(d) => ("<".into(), val_of(&DataValue::Datetime(*d), style)),
        DataOperator::AtOrBeforeDatetime(d) => ("<=".into(), val_of(&DataValue::Datetime(*d), style)),
        DataOperator::Not(inner) => {
            let (op, v) = operator_of(inner, style);
            (if op == "=" { "!=".to_string() } else { format!("!{}", op) }, v)
        }
        other => ("?".into(), Val { t: "?".into(), s: format!("{:?}", other), n: 0, l: vec![] }),
    }
}

pub fn project_constraint(c: &Constraint, style: IdStyle) -> CAst {
    let id = |x: &str| style.abs(&unquote(x));
    match c {
        Constraint::Id(x) => CAst { a: id(x), ..CAst::new("Id") },
        Constraint::Annotation(x, q, d, o) => {
            CAst { a: id(x), q: *q == SelectionQualifier::Metadata, rec: *d == AnnotationDepth::Max, off: off_of(o), ..CAst::new("Ann") }
        }
        Constraint::AnnotationVariable(x, q, d, o) => CAst {
            a: x.to_string(),
            q: *q == SelectionQualifier::Metadata,
            rec: *d == AnnotationDepth::Max,
            off: off_of(o),
            ..CAst::new("AnnVar")
        },
        Constraint::TextResource(x, q, o) => CAst { a: id(x), q: *q == SelectionQualifier::Metadata, off: off_of(o), ..CAst::new("Res") },
        Constraint::ResourceVariable(x, q, o) => {
            CAst { a: x.to_string(), q: *q == SelectionQualifier::Metadata, off: off_of(o), ..CAst::new("ResVar") }
        }
        Constraint::DataSet(x, q) => CAst { a: id(x), q: *q == SelectionQualifier::Metadata, ..CAst::new("Set") },
        Constraint::DataSetVariable(x, q) => CAst { a: x.to_string(), q: *q == SelectionQualifier::Metadata, ..CAst::new("SetVar") },
        Constraint::DataKey { set, key, qualifier } => {
            CAst { a: id(set), b: id(key), q: *qualifier == SelectionQualifier::Metadata, ..CAst::new("Key") }
        }
        Constraint::KeyValue { set, key, operator, qualifier } => {
            let (op, v) = operator_of(operator, style);
            CAst { a: id(set), b: id(key), op, v, q: *qualifier == SelectionQualifier::Metadata, ..CAst::new("KeyVal") }
        }
        Constraint::DataVariable(x, q) => CAst { a: x.to_string(), q: *q == SelectionQualifier::Metadata, ..CAst::new("DataVar") },
        Constraint::KeyVariable(x, q) => CAst { a: x.to_string(), q: *q == SelectionQualifier::Metadata, ..CAst::new("KeyVar") },
        Constraint::Value(operator, q) => {
            let (op, v) = operator_of(operator, style);
            CAst { op, v, q: *q == SelectionQualifier::Metadata, ..CAst::new("Value") }
        }
        Constraint::Text(x, mode) => CAst {
            b: (if *mode == TextMode::CaseInsensitive { "nocase" } else { "exact" }).to_string(),
            v: Val { t: "text".into(), s: String::new(), n: 0, l: codes_of(&unquote(x)).iter().map(|c| Val::int(*c)).collect() },
            ..CAst::new("Text")
        },
        Constraint::TextVariable(x) => CAst { a: x.to_string(), ..CAst::new("TextVar") },
        Constraint::TextRelation { var, operator } => CAst { a: var.to_string(), b: relation_kw(operator), ..CAst::new("Relation") },
        Constraint::Union(cs) => CAst { u: cs.iter().map(|x| project_constraint(x, style)).collect(), ..CAst::new("Union") },
        Constraint::Limit { begin, end } => CAst { lb: *begin as i64, le: *end as i64, ..CAst::new("Limit") },
        other => CAst { a: format!("?{}", other.keyword()), ..CAst::new("?") },
    }
}

pub fn project_query(q: &Query, style: IdStyle) -> QAst {
    QAst {
        qt: q.querytype().as_str().to_string(),
        rt: rt_str(q.resulttype()),
        name: q.name().unwrap_or("").to_string(),
        opt: q.qualifier() == QueryQualifier::Optional,
        cs: q.iter().map(|c| project_constraint(c, style)).collect(),
        subs: q.subqueries().map(|s| project_query(s, style)).collect(),
    }
}

// ------------------------------------------------------------------------------------------ builder

fn qual(q: bool) -> SelectionQualifier {
    if q {
        SelectionQualifier::Metadata
    } else {
        SelectionQualifier::Normal
    }
}

fn depth(rec: bool) -> AnnotationDepth {
    if rec {
        AnnotationDepth::Max
    } else {
        AnnotationDepth::One
    }
}

fn offset_opt(o: &Off) -> Option<Offset> {
    if o.has {
        Some(crate::apply::offset_of(o))
    } else {
        None
    }
}

fn dataoperator(op: &str, v: &Val, style: IdStyle) -> DataOperator<'static> {
    let base: DataOperator<'static> = match (op.trim_start_matches('!'), v.t.as_str()) {
        ("or", "list") => DataOperator::Or(v.l.iter().map(|e| dataoperator("=", e, style)).collect()),
        ("and", "list") => DataOperator::And(vec![DataOperator::GreaterThan(v.l[0].n as isize), DataOperator::LessThan(v.l[1].n as isize)]),
        ("has", "str") => DataOperator::HasElement(std::borrow::Cow::Owned(style.conc(&v.s))),
        ("has", "int") => DataOperator::HasElementInt(v.n as isize),
        ("has", "float") => DataOperator::HasElementFloat(float_of(v.n)),
        ("=", "any") => DataOperator::Any,
        ("=", "null") => DataOperator::Null,
        ("=", "bool") => {
            if v.n != 0 {
                DataOperator::True
            } else {
                DataOperator::False
            }
        }
        ("=", "str") => DataOperator::Equals(std::borrow::Cow::Owned(style.conc(&v.s))),
        ("=", "int") => DataOperator::EqualsInt(v.n as isize),
        ("=", "float") => DataOperator::EqualsFloat(float_of(v.n)),
        (">", "int") => DataOperator::GreaterThan(v.n as isize),
        (">=", "int") => DataOperator::GreaterThanOrEqual(v.n as isize),
        ("<", "int") => DataOperator::LessThan(v.n as isize),
        ("<=", "int") => DataOperator::LessThanOrEqual(v.n as isize),
        (">", "float") => DataOperator::GreaterThanFloat(float_of(v.n)),
        (">=", "float") => DataOperator::GreaterThanOrEqualFloat(float_of(v.n)),
        ("<", "float") => DataOperator::LessThanFloat(float_of(v.n)),
        ("<=", "float") => DataOperator::LessThanOrEqualFloat(float_of(v.n)),
        (o, "datetime") => {
            let d = match value_of(v, style) {
                DataValue::Datetime(d) => d,
                _ => unreachable!(),
            };
            match o {
                "=" => DataOperator::ExactDatetime(d),
                ">" => DataOperator::AfterDatetime(d),
                ">=" => DataOperator::AtOrAfterDatetime(d),
                "<" => DataOperator::BeforeDatetime(d),
                _ => DataOperator::AtOrBeforeDatetime(d),
            }
        }
        (o, t) => panic!("harness: no data operator for {} {}", o, t),
    };
    if op.starts_with('!') {
        DataOperator::Not(Box::new(base))
    } else {
        base
    }
}

fn relation_operator(kw: &str) -> TextSelectionOperator {
    match kw {
        "EQUALS" => TextSelectionOperator::equals(),
        "EMBEDS" => TextSelectionOperator::embeds(),
        "EMBEDDED" => TextSelectionOperator::embedded(),
        "OVERLAPS" => TextSelectionOperator::overlaps(),
        "PRECEDES" => TextSelectionOperator::precedes(),
        "SUCCEEDS" => TextSelectionOperator::succeeds(),
        "SAMEBEGIN" => TextSelectionOperator::samebegin(),
        "SAMEEND" => TextSelectionOperator::sameend(),
        "BEFORE" => TextSelectionOperator::before(),
        "AFTER" => TextSelectionOperator::after(),
        other => panic!("harness: unknown relation keyword {}", other),
    }
}

pub fn build_constraint(c: &CAst, style: IdStyle) -> Constraint<'static> {
    let id = |x: &str| leak(style.conc(x));
    let var = |x: &str| leak(x.to_string());
    match c.k.as_str() {
        "Id" => Constraint::Id(id(&c.a)),
        "Ann" => Constraint::Annotation(id(&c.a), qual(c.q), depth(c.rec), offset_opt(&c.off)),
        "AnnVar" => Constraint::AnnotationVariable(var(&c.a), qual(c.q), depth(c.rec), offset_opt(&c.off)),
        "Res" => Constraint::TextResource(id(&c.a), qual(c.q), offset_opt(&c.off)),
        "ResVar" => Constraint::ResourceVariable(var(&c.a), qual(c.q), offset_opt(&c.off)),
        "Set" => Constraint::DataSet(id(&c.a), qual(c.q)),
        "SetVar" => Constraint::DataSetVariable(var(&c.a), qual(c.q)),
        "Key" => Constraint::DataKey { set: id(&c.a), key: id(&c.b), qualifier: qual(c.q) },
        "KeyVal" => Constraint::KeyValue { set: id(&c.a), key: id(&c.b), operator: dataoperator(&c.op, &c.v, style), qualifier: qual(c.q) },
        "DataVar" => Constraint::DataVariable(var(&c.a), qual(c.q)),
        "KeyVar" => Constraint::KeyVariable(var(&c.a), qual(c.q)),
        "Value" => Constraint::Value(dataoperator(&c.op, &c.v, style), qual(c.q)),
        "Text" => Constraint::Text(
            leak(text_of(&text_codes(&c.v))),
            if c.b == "nocase" { TextMode::CaseInsensitive } else { TextMode::Exact },
        ),
        "TextVar" => Constraint::TextVariable(var(&c.a)),
        "Relation" => Constraint::TextRelation { var: var(&c.a), operator: relation_operator(&c.b) },
        "Union" => Constraint::Union(c.u.iter().map(|x| build_constraint(x, style)).collect()),
        "Limit" => Constraint::Limit { begin: c.lb as isize, end: c.le as isize },
        other => panic!("harness: cannot build constraint {}", other),
    }
}

fn rt_of(rt: &str) -> Option<Type> {
    match rt {
        "ANNOTATION" => Some(Type::Annotation),
        "DATA" => Some(Type::AnnotationData),
        "KEY" => Some(Type::DataKey),
        "TEXT" => Some(Type::TextSelection),
        "RESOURCE" => Some(Type::TextResource),
        "DATASET" => Some(Type::AnnotationDataSet),
        _ => None,
    }
}

pub fn build_query(q: &QAst, style: IdStyle) -> Query<'static> {
    let qt = match q.qt.as_str() {
        "ADD" => QueryType::Add,
        "DELETE" => QueryType::Delete,
        _ => QueryType::Select,
    };
    let name: Option<&'static str> = if q.name.is_empty() { None } else { Some(leak(q.name.clone())) };
    let mut query = Query::new(qt, rt_of(&q.rt), name);
    if q.opt {
        query = query.with_qualifier(QueryQualifier::Optional);
    }
    for c in q.cs.iter() {
        query = query.with_constraint(build_constraint(c, style));
    }
    for s in q.subs.iter() {
        query = query.with_subquery(build_query(s, style));
    }
    query
}

// ------------------------------------------------------------------------------------------ Parse event

fn digest(s: &str) -> String {
    use std::collections::hash_map::DefaultHasher;
    use std::hash::{Hash, Hasher};
    let mut h = DefaultHasher::new();
    s.hash(&mut h);
    format!("{:016x}:{}", h.finish(), s.len())
}

/// Returns (outcome, api)
pub fn parse_event(a: &Value, style: IdStyle) -> (String, Value) {
    let toks: Vec<Tok> = serde_json::from_value(a["toks"].clone()).expect("harness: tokens");
    let built = a["built"].as_bool().unwrap_or(false);
    let empty = serde_json::to_value(QAst::empty()).unwrap();
    let mut api = json!({"has": true, "parsed": false, "ast0": empty, "ast1": empty, "print_ok": false, "reparse_ok": false, "ast2": empty,
                          "d1": "", "d2": "", "text": ""});
    // the text that is parsed: the tokens, or what the programmatically built query prints
    let text: String = if built {
        let ast: QAst = serde_json::from_value(a["ast"].clone()).expect("harness: ast");
        let r = catch_unwind(AssertUnwindSafe(|| {
            let q0 = build_query(&ast, style);
            (project_query(&q0, style), q0.to_string())
        }));
        match r {
            Ok((ast0, Ok(p0))) => {
                api["ast0"] = serde_json::to_value(ast0).unwrap();
                p0
            }
            Ok((_, Err(_))) => return ("err".into(), api),
            Err(_) => return ("panic".into(), api),
        }
    } else {
        tokens_to_text(&toks, style)
    };
    api["text"] = json!(text.chars().take(300).collect::<String>());
    let text: &'static str = leak(text);
    let r = catch_unwind(AssertUnwindSafe(|| -> Result<Value, StamError> {
        let q1: Query = text.try_into()?;
        let mut out = json!({"parsed": true});
        out["ast1"] = serde_json::to_value(project_query(&q1, style)).unwrap();
        if let Ok(p1) = q1.to_string() {
            out["print_ok"] = json!(true);
            out["d1"] = json!(digest(&p1));
            let p1: &'static str = leak(p1);
            let q2: Result<Query, StamError> = p1.try_into();
            if let Ok(q2) = q2 {
                out["reparse_ok"] = json!(true);
                out["ast2"] = serde_json::to_value(project_query(&q2, style)).unwrap();
                if let Ok(p2) = q2.to_string() {
                    out["d2"] = json!(digest(&p2));
                }
            }
        }
        Ok(out)
    }));
    match r {
        Ok(Ok(out)) => {
            for (k, v) in out.as_object().unwrap() {
                api[k] = v.clone();
            }
            ("ok".into(), api)
        }
        Ok(Err(_)) => ("err".into(), api),
        Err(_) => ("panic".into(), api),
    }
}

// ------------------------------------------------------------------------------------------ Query event (C08)

fn item_json(it: &QueryResultItem) -> Value {
    match it {
        QueryResultItem::None => json!({"t": "none", "a": 0, "b": 0, "c": 0}),
        QueryResultItem::Annotation(a) => json!({"t": "ann", "a": a.handle().as_usize() + 1, "b": 0, "c": 0}),
        QueryResultItem::AnnotationData(d) => json!({"t": "data", "a": d.set().handle().as_usize() + 1, "b": d.handle().as_usize() + 1, "c": 0}),
        QueryResultItem::TextSelection(t) => json!({"t": "text", "a": t.resource().handle().as_usize() + 1, "b": t.begin(), "c": t.end()}),
        QueryResultItem::TextResource(r) => json!({"t": "res", "a": r.handle().as_usize() + 1, "b": 0, "c": 0}),
        QueryResultItem::DataKey(k) => json!({"t": "key", "a": k.set().handle().as_usize() + 1, "b": k.handle().as_usize() + 1, "c": 0}),
        QueryResultItem::AnnotationDataSet(s) => json!({"t": "set", "a": s.handle().as_usize() + 1, "b": 0, "c": 0}),
        QueryResultItem::AnnotationSubStore(_) => json!({"t": "substore", "a": 0, "b": 0, "c": 0}),
    }
}

fn without_limit(q: &QAst) -> QAst {
    let mut q = q.clone();
    q.cs.retain(|c| c.k != "Limit");
    q
}

fn run_query(store: &AnnotationStore, ast: &QAst, form: &str, style: IdStyle) -> Result<Vec<Value>, StamError> {
    let built = build_query(ast, style);
    let query: Query<'static> = if form == "text" {
        let text: &'static str = leak(built.to_string()?);
        text.try_into()?
    } else {
        built
    };
    let mut rows = Vec::new();
    for row in store.query(query)? {
        rows.push(Value::Array(row.iter().map(item_json).collect()));
    }
    Ok(rows)
}

/// Returns (outcome, api)
pub fn query_event(store: &AnnotationStore, a: &Value, style: IdStyle) -> (String, Value) {
    let ast: QAst = serde_json::from_value(a["q"].clone()).expect("harness: query ast");
    let form = a["form"].as_str().unwrap_or("built").to_string();
    let r = catch_unwind(AssertUnwindSafe(|| -> Result<(Vec<Value>, Vec<Value>), StamError> {
        let rows = run_query(store, &ast, &form, style)?;
        let base = run_query(store, &without_limit(&ast), &form, style)?;
        Ok((rows, base))
    }));
    match r {
        Ok(Ok((rows, base))) => ("ok".into(), json!({"has": true, "ok": true, "rows": rows, "base": base})),
        Ok(Err(e)) => ("err".into(), json!({"has": true, "ok": false, "rows": [], "base": [], "error": format!("{}", e).chars().take(200).collect::<String>()})),
        Err(_) => ("panic".into(), json!({"has": true, "ok": false, "rows": [], "base": []})),
    }
}

// ------------------------------------------------------------------------------------------ FindData event (C10)

pub fn finddata_event(store: &AnnotationStore, a: &Value, style: IdStyle) -> (String, Value) {
    let set = a["set"].as_str().unwrap_or("").to_string();
    let key = a["key"].as_str().unwrap_or("").to_string();
    let via = a["via"].as_str().unwrap_or("store").to_string();
    let v: Val = serde_json::from_value(a["v"].clone()).expect("harness: value");
    let op = dataoperator(a["op"].as_str().unwrap_or("="), &v, style);
    let r = catch_unwind(AssertUnwindSafe(|| {
        let it = |d: ResultItem<AnnotationData>| json!([d.set().handle().as_usize() + 1, d.handle().as_usize() + 1]);
        let items: Vec<Value> = if via == "set" && !set.is_empty() {
            match store.dataset(style.conc(&set).as_str()) {
                Some(ds) => {
                    if key.is_empty() {
                        ds.find_data(false, op.clone()).map(it).collect()
                    } else {
                        ds.find_data(style.conc(&key).as_str(), op.clone()).map(it).collect()
                    }
                }
                None => vec![],
            }
        } else {
            let sc = style.conc(&set);
            let kc = style.conc(&key);
            match (set.is_empty(), key.is_empty()) {
                (true, _) => store.find_data(false, false, op.clone()).map(it).collect(),
                (false, true) => store.find_data(sc.as_str(), false, op.clone()).map(it).collect(),
                (false, false) => store.find_data(sc.as_str(), kc.as_str(), op.clone()).map(it).collect(),
            }
        };
        items
    }));
    match r {
        Ok(items) => ("ok".into(), json!({"has": true, "items": items})),
        Err(_) => ("panic".into(), json!({"has": true, "items": []})),
    }
}

// ------------------------------------------------------------------------------------------ QueryAdd event (C14)

/// ADD ANNOTATION ?new WITH [ID ..;] [DATA set key value;]* TARGET ?y; { sub-query }   (the sub-query binds ?y)
pub fn query_add(store: &mut AnnotationStore, a: &Value, style: IdStyle) -> Result<i64, StamError> {
    let sub: QAst = serde_json::from_value(a["sub"].clone()).expect("harness: sub-query ast");
    let subtext = build_query(&sub, style).to_string()?;
    let mut text = String::from("ADD ANNOTATION ?new WITH ");
    let id = a["id"].as_str().unwrap_or("");
    if !id.is_empty() {
        text.push_str(&format!("ID {}; ", quote(&style.conc(id))));
    }
    for d in a["data"].as_array().cloned().unwrap_or_default() {
        let db: DB = serde_json::from_value(d).expect("harness: data builder");
        text.push_str(&format!("DATA {} {} {}; ", quote(&style.conc(&db.set.id)), quote(&style.conc(&db.key.id)), quote(&style.conc(&db.val.s))));
    }
    text.push_str(&format!("TARGET ?{}; {{ {} }}", sub.name, subtext));
    if std::env::var("VERIF_DEBUG_QUERY").is_ok() {
        eprintln!("QueryAdd: {}", text);
    }
    let text: &'static str = leak(text);
    let query: Query<'static> = text.try_into().map_err(|e| {
        if std::env::var("VERIF_DEBUG_QUERY").is_ok() {
            eprintln!("  parse error: {}", e);
        }
        e
    })?;
    // (the store is only borrowed for the call: results are drained at once)
    let store: &'static mut AnnotationStore = unsafe { &mut *(store as *mut AnnotationStore) };
    let n = store.query_mut(query).map_err(|e| {
        if std::env::var("VERIF_DEBUG_QUERY").is_ok() {
            eprintln!("  query error: {}", e);
        }
        e
    })?.count();
    Ok(n as i64 * 0)
}

// ------------------------------------------------------------------------------------------ QueryDelete event (C02)

/// DELETE <TYPE> ?x { sub-query }   (the sub-query binds ?x and has the same result type)
pub fn query_delete(store: &mut AnnotationStore, a: &Value, style: IdStyle) -> Result<i64, StamError> {
    let sub: QAst = serde_json::from_value(a["sub"].clone()).expect("harness: sub-query ast");
    let subtext = build_query(&sub, style).to_string()?;
    let text: &'static str = leak(format!("DELETE {} ?{} {{ {} }}", sub.rt, sub.name, subtext));
    if std::env::var("VERIF_DEBUG_QUERY").is_ok() {
        eprintln!("QueryDelete: {}", text);
    }
    let dbg = std::env::var("VERIF_DEBUG_QUERY").is_ok();
    let query: Query<'static> = text.try_into().map_err(|e| {
        if dbg {
            eprintln!("  parse error: {}", e);
        }
        e
    })?;
    let store: &'static mut AnnotationStore = unsafe { &mut *(store as *mut AnnotationStore) };
    let _ = store
        .query_mut(query)
        .map_err(|e| {
            if dbg {
                eprintln!("  query error: {}", e);
            }
            e
        })?
        .count();
    Ok(0)
}
