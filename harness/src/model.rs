//! Event vocabulary shared by the TLA+ specification and the harness (DESIGN.md 9b).
//! Every struct has a fixed JSON shape (TLC throws on comparing values of different types).
use serde::{Deserialize, Serialize};

#[derive(Serialize, Deserialize, Clone, Debug, PartialEq)]
pub struct Ref {
    pub by: String, // "id" | "h" | "temp" | "none"
    #[serde(default)]
    pub id: String,
    #[serde(default)]
    pub h: i64,
    #[serde(default)]
    pub tl: String,
    #[serde(default)]
    pub tn: i64,
}

impl Ref {
    pub fn none() -> Self {
        Ref { by: "none".into(), id: String::new(), h: 0, tl: String::new(), tn: 0 }
    }
    pub fn by_id(id: &str) -> Self {
        Ref { by: "id".into(), id: id.into(), h: 0, tl: String::new(), tn: 0 }
    }
    pub fn by_h(h: i64) -> Self {
        Ref { by: "h".into(), id: String::new(), h, tl: String::new(), tn: 0 }
    }
    pub fn by_temp(tl: &str, tn: i64) -> Self {
        Ref { by: "temp".into(), id: String::new(), h: 0, tl: tl.into(), tn }
    }
}

#[derive(Serialize, Deserialize, Clone, Debug, PartialEq)]
pub struct Off {
    pub has: bool,
    pub bk: String,
    pub bv: i64,
    pub ek: String,
    pub ev: i64,
}

impl Off {
    pub fn none() -> Self {
        Off { has: false, bk: "B".into(), bv: 0, ek: "B".into(), ev: 0 }
    }
    pub fn new(bk: &str, bv: i64, ek: &str, ev: i64) -> Self {
        Off { has: true, bk: bk.into(), bv, ek: ek.into(), ev }
    }
}

/// target builder
#[derive(Serialize, Deserialize, Clone, Debug, PartialEq)]
pub struct TB {
    pub kind: String,
    pub a: Ref,
    pub b: Ref,
    pub off: Off,
    #[serde(default)]
    pub subs: Vec<TB>,
}

impl TB {
    pub fn simple(kind: &str, a: Ref, b: Ref, off: Off) -> Self {
        TB { kind: kind.into(), a, b, off, subs: vec![] }
    }
    pub fn complex(kind: &str, subs: Vec<TB>) -> Self {
        TB { kind: kind.into(), a: Ref::none(), b: Ref::none(), off: Off::none(), subs }
    }
}

#[derive(Serialize, Deserialize, Clone, Debug, PartialEq)]
pub struct Val {
    pub t: String, // null str int float bool list datetime
    #[serde(default)]
    pub s: String,
    #[serde(default)]
    pub n: i64,
    #[serde(default)]
    pub l: Vec<Val>,
}

impl Val {
    pub fn null() -> Self {
        Val { t: "null".into(), s: String::new(), n: 0, l: vec![] }
    }
    pub fn str(s: &str) -> Self {
        Val { t: "str".into(), s: s.into(), n: 0, l: vec![] }
    }
    pub fn int(n: i64) -> Self {
        Val { t: "int".into(), s: String::new(), n, l: vec![] }
    }
}

/// data builder
#[derive(Serialize, Deserialize, Clone, Debug, PartialEq)]
pub struct DB {
    pub set: Ref,
    pub key: Ref,
    pub id: Ref,
    pub val: Val,
}

/// One input operation: event name + arguments (free-form, interpreted per event).
#[derive(Serialize, Deserialize, Clone, Debug)]
pub struct Op {
    pub ev: String,
    pub a: serde_json::Value,
}

// ---------------------------------------------------------------- projected state

#[derive(Serialize, Clone, Debug, PartialEq)]
pub struct PRes {
    pub id: String,
    pub alive: bool,
    pub text: Vec<i64>,
    pub tsel: Vec<(i64, i64)>,
}

#[derive(Serialize, Clone, Debug, PartialEq)]
pub struct PKey {
    pub id: String,
    pub alive: bool,
}

#[derive(Serialize, Clone, Debug, PartialEq)]
pub struct PData {
    pub id: String,
    pub alive: bool,
    pub key: i64,
    pub val: Val,
}

#[derive(Serialize, Clone, Debug, PartialEq)]
pub struct PSet {
    pub id: String,
    pub alive: bool,
    pub keys: Vec<PKey>,
    pub data: Vec<PData>,
    pub kidm: Vec<(String, i64)>,
    pub didm: Vec<(String, i64)>,
    pub kdm: Vec<(i64, i64, Vec<i64>)>,
}

#[derive(Serialize, Clone, Debug, PartialEq)]
pub struct PLeaf {
    pub k: String,
    pub a: i64,
    pub b: i64,
    pub c: i64,
    pub m: i64,
}

#[derive(Serialize, Clone, Debug, PartialEq)]
pub struct PAnn {
    pub id: String,
    pub alive: bool,
    pub kind: String,
    pub leaves: Vec<PLeaf>,
    pub data: Vec<(i64, i64)>,
}

#[derive(Serialize, Clone, Debug, PartialEq, Default)]
pub struct PIdm {
    pub res: Vec<(String, i64)>,
    pub set: Vec<(String, i64)>,
    pub ann: Vec<(String, i64)>,
}

pub type Rows = Vec<(i64, i64, Vec<i64>)>;

#[derive(Serialize, Clone, Debug, PartialEq, Default)]
pub struct PIx {
    pub dda: Rows,
    pub trm: Rows,
    pub ram: Rows,
    pub sam: Rows,
    pub aam: Rows,
    pub kam: Rows,
    pub dam: Rows,
}

#[derive(Serialize, Clone, Debug, PartialEq, Default)]
pub struct PState {
    pub res: Vec<PRes>,
    pub sets: Vec<PSet>,
    pub anns: Vec<PAnn>,
    pub idm: PIdm,
    pub ix: PIx,
}

/// position-index view of one resource: (pos, bytepos, begin2end, end2begin)
pub type PPos = Vec<(i64, i64, Vec<(i64, i64)>, Vec<(i64, i64)>)>;

#[derive(Serialize, Clone, Debug, Default)]
pub struct Event {
    pub ev: String,
    pub a: serde_json::Value,
    pub outcome: String, // ok | err | panic
    pub res: i64,
    pub projok: bool,
    pub post: PState,
    pub pos: Vec<PPos>,
    pub api: serde_json::Value,
    /// event-specific extra observations (fixed shape per event kind; {"has": false} when there are none)
    pub x: serde_json::Value,
}
