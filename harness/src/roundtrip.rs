//! Serialisation round trips (C05 JSON, C11 CBOR, C15 CSV): write the store, read it back, write the reloaded
//! store again; the history then continues on the RELOADED store. Only digests of the two serialisations are
//! logged; whether they must be equal, and what the reloaded store must look like, is decided by TLC.
use crate::apply::Ctx;
use serde_json::{json, Value};
use stam::*;
use std::collections::hash_map::DefaultHasher;
use std::hash::{Hash, Hasher};
use std::panic::{catch_unwind, AssertUnwindSafe};
use std::path::{Path, PathBuf};
use std::sync::atomic::{AtomicUsize, Ordering};

static COUNTER: AtomicUsize = AtomicUsize::new(0);

fn scratch_dir() -> PathBuf {
    let base = std::env::var("VERIF_TMP").unwrap_or_else(|_| "/verif/work/rt".to_string());
    let d = Path::new(&base).join(format!("{}_{}", std::process::id(), COUNTER.fetch_add(1, Ordering::SeqCst)));
    std::fs::create_dir_all(&d).expect("harness: scratch dir");
    d
}

fn digest_dir(dir: &Path) -> String {
    // digest over (relative name, content) of every file, in name order
    let mut names: Vec<PathBuf> = std::fs::read_dir(dir).map(|it| it.filter_map(|e| e.ok().map(|e| e.path())).collect()).unwrap_or_default();
    names.sort();
    let mut h = DefaultHasher::new();
    for n in names.iter() {
        n.file_name().unwrap().to_string_lossy().hash(&mut h);
        std::fs::read(n).unwrap_or_default().hash(&mut h);
    }
    format!("{:016x}:{}", h.finish(), names.len())
}

fn digest_str(s: &str) -> String {
    let mut h = DefaultHasher::new();
    s.hash(&mut h);
    format!("{:016x}:{}", h.finish(), s.len())
}

fn json_config(compact: bool) -> Config {
    crate::store_config().0.with_dataformat(DataFormat::Json { compact })
}

/// Give every resource and dataset its own stand-off file name (relative to the store's directory)
fn make_standoff(store: &mut AnnotationStore, what: &str) {
    if what == "resources" || what == "both" || what == "resjson" {
        for i in 0..store.resources_len() {
            let r: Result<&mut TextResource, _> = store.get_mut(TextResourceHandle::new(i));
            if let Ok(r) = r {
                if r.filename().is_some() || r.textlen() == 0 {
                    continue; // already stand-off (renaming an unchanged stand-off file is not a round trip), or never had content
                }
                if what == "resjson" {
                    r.set_filename(&format!("res{}.resource.stam.json", i));
                } else {
                    r.set_filename(&format!("res{}.txt", i));
                }
            }
        }
    }
    if what == "datasets" || what == "both" {
        for i in 0..store.datasets_len() {
            let s: Result<&mut AnnotationDataSet, _> = store.get_mut(AnnotationDataSetHandle::new(i));
            if let Ok(s) = s {
                // a stand-off file is only (re)written when its content changed; a dataset that never had content
                // has nothing to write, so it stays inline
                if (s.keys_len() == 0 && s.data_len() == 0) || s.filename().is_some() {
                    continue;
                }
                s.set_filename(&format!("set{}.annotationset.stam.json", i));
            }
        }
    }
}

/// One level of sub-stores: a new sub-store takes all resources, all datasets and the first half of the annotations
/// (which can only refer to items in that half); the rest stays in the main store.
fn make_substore(store: &mut AnnotationStore) -> Result<(), StamError> {
    if store.substores_len() > 0 {
        return Ok(());
    }
    let sub = store.add_new_substore("sub", "sub.store.stam.json")?;
    for i in 0..store.resources_len() {
        let h = TextResourceHandle::new(i);
        if store.resource(h).is_some() {
            <AnnotationStore as AssociateSubStore<TextResource>>::associate_substore(store, h, sub)?;
        }
    }
    for i in 0..store.datasets_len() {
        let h = AnnotationDataSetHandle::new(i);
        if store.dataset(h).is_some() {
            <AnnotationStore as AssociateSubStore<AnnotationDataSet>>::associate_substore(store, h, sub)?;
        }
    }
    let live: Vec<AnnotationHandle> = store.annotations().map(|a| a.handle()).collect();
    for h in live.iter().take((live.len() + 1) / 2) {
        <AnnotationStore as AssociateSubStore<Annotation>>::associate_substore(store, *h, sub)?;
    }
    Ok(())
}

/// C18: change the stand-off text file of a resource between writing and reading.
/// edit = {has, res (rank among live resources), kind sub|ins|del, pos, c (abstract character)}
fn edit_text_file(store: &AnnotationStore, dir: &Path, edit: &Value) {
    if !edit["has"].as_bool().unwrap_or(false) {
        return;
    }
    let rank = edit["res"].as_i64().unwrap_or(0) as usize;
    let res = match store.resources().nth(rank.saturating_sub(1)) {
        Some(r) => r,
        None => return,
    };
    let fname = match res.as_ref().filename() {
        Some(f) => dir.join(Path::new(f).file_name().unwrap()),
        None => return, // not stand-off: nothing to edit outside the store
    };
    let mut chars: Vec<char> = std::fs::read_to_string(&fname).unwrap_or_default().chars().collect();
    let pos = edit["pos"].as_i64().unwrap_or(0) as usize;
    let c = crate::concretise::char_of(edit["c"].as_i64().unwrap_or(11));
    match edit["kind"].as_str().unwrap_or("") {
        "sub" if pos < chars.len() => chars[pos] = c,
        "ins" if pos <= chars.len() => chars.insert(pos, c),
        "del" if pos < chars.len() => {
            chars.remove(pos);
        }
        _ => {}
    }
    std::fs::write(&fname, chars.into_iter().collect::<String>()).expect("harness: edit text file");
}

/// All round trips of one behaviour use one directory and one file name: stand-off files that did not change are
/// (by design) not rewritten, so they must stay where they are for the next load.
fn behaviour_dir(ctx: &mut Ctx) -> PathBuf {
    if ctx.dir.is_none() {
        ctx.dir = Some(scratch_dir());
    }
    ctx.dir.clone().unwrap()
}

/// Returns (outcome, 0); on success ctx.store is the reloaded store and ctx.extra holds the digests
pub fn roundtrip(ctx: &mut Ctx, a: &Value) -> (String, i64) {
    let format = a["format"].as_str().unwrap_or("json").to_string();
    let layout = a["layout"].as_str().unwrap_or("string").to_string();
    let compact = a["compact"].as_bool().unwrap_or(false);
    let r = catch_unwind(AssertUnwindSafe(|| -> Result<(AnnotationStore, String, String), StamError> {
        match (format.as_str(), layout.as_str()) {
            // C03: compaction in memory (reindex() consumes the store)
            ("reindex", _) => {
                let old = std::mem::replace(&mut ctx.store, AnnotationStore::new(Config::default()));
                Ok((old.reindex(), String::new(), String::new()))
            }
            ("json", "string") => {
                let cfg = json_config(compact);
                let s1 = ctx.store.to_json_string(&cfg)?;
                let loaded = AnnotationStore::from_str(&s1, crate::store_config().0)?;
                let s2 = loaded.to_json_string(&cfg)?;
                Ok((loaded, digest_str(&s1), digest_str(&s2)))
            }
            (fmt, lay) => {
                let name = match fmt {
                    "json" => "store.store.stam.json",
                    "cbor" => "store.store.stam.cbor",
                    "csv" => "store.store.stam.csv",
                    other => panic!("harness: unknown format {}", other),
                };
                let d1 = behaviour_dir(ctx);
                let path = d1.join(name);
                let path = path.to_str().unwrap().to_string();
                ctx.store.set_filename(&path);
                if fmt == "json" && lay == "substore" {
                    make_substore(&mut ctx.store)?;
                } else if fmt == "json" && lay != "file" {
                    make_standoff(&mut ctx.store, lay);
                }
                ctx.store.save()?;
                edit_text_file(&ctx.store, &d1, &a["edit"]);
                let dg1 = digest_dir(&d1);
                let loaded = AnnotationStore::from_file(&path, crate::store_config().0)?;
                // write the reloaded store again (same place) and compare what is on disk
                loaded.save()?;
                let dg2 = digest_dir(&d1);
                Ok((loaded, dg1, dg2))
            }
        }
    }));
    match r {
        Ok(Ok((loaded, d1, d2))) => {
            ctx.store = loaded;
            ctx.extra = json!({"has": true, "d1": d1, "d2": d2});
            ("ok".into(), 0)
        }
        Ok(Err(e)) => {
            ctx.extra = json!({"has": true, "d1": "", "d2": "", "error": format!("{}", e)});
            ("err".into(), 0)
        }
        Err(_) => {
            ctx.extra = json!({"has": true, "d1": "", "d2": ""});
            ("panic".into(), 0)
        }
    }
}
