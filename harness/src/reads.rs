//! Read-only events: ask the store a question and log the answer (StamRead.tla judges it).
use crate::apply::{bi, offset_of, Ctx};
use crate::concretise::*;
use crate::model::*;
use serde_json::{json, Value};
use stam::*;
use std::panic::{catch_unwind, AssertUnwindSafe};

fn rf(v: &Value) -> Ref {
    serde_json::from_value(v.clone()).expect("harness: ref")
}

fn off_json(o: &Offset) -> Value {
    let (bk, bv) = match o.begin {
        Cursor::BeginAligned(v) => ("B", v as i64),
        Cursor::EndAligned(v) => ("E", v as i64),
    };
    let (ek, ev) = match o.end {
        Cursor::BeginAligned(v) => ("B", v as i64),
        Cursor::EndAligned(v) => ("E", v as i64),
    };
    json!({"has": true, "bk": bk, "bv": bv, "ek": ek, "ev": ev})
}

fn no_off() -> Value {
    json!({"has": false, "bk": "B", "bv": 0, "ek": "B", "ev": 0})
}

fn mode_of(m: i64) -> OffsetMode {
    match m {
        0 => OffsetMode::BeginBegin,
        1 => OffsetMode::BeginEnd,
        2 => OffsetMode::EndEnd,
        _ => OffsetMode::EndBegin,
    }
}

pub fn operator_of(o: &Value) -> TextSelectionOperator {
    let all = o["all"].as_bool().unwrap_or(false);
    let negate = o["negate"].as_bool().unwrap_or(false);
    let ws = o["ws"].as_bool().unwrap_or(false);
    let limit = match o["limit"].as_i64().unwrap_or(0) {
        0 => None,
        n => Some(n as usize),
    };
    match o["op"].as_str().unwrap_or("") {
        "Equals" => TextSelectionOperator::Equals { all, negate },
        "Overlaps" => TextSelectionOperator::Overlaps { all, negate },
        "Embeds" => TextSelectionOperator::Embeds { all, negate },
        "Embedded" => TextSelectionOperator::Embedded { all, negate, limit },
        "Before" => TextSelectionOperator::Before { all, negate, limit },
        "After" => TextSelectionOperator::After { all, negate, limit },
        "Precedes" => TextSelectionOperator::Precedes { all, negate, allow_whitespace: ws },
        "Succeeds" => TextSelectionOperator::Succeeds { all, negate, allow_whitespace: ws },
        "SameBegin" => TextSelectionOperator::SameBegin { all, negate },
        "SameEnd" => TextSelectionOperator::SameEnd { all, negate },
        other => panic!("harness: unknown operator {}", other),
    }
}

/// the same test through the low-level sets, sorted first (TextSelectionSet::sort() is public and switches the set to
/// its "sorted" code paths)
fn relation_cell_sorted<'a>(o: &TextSelectionOperator, sa: Vec<ResultTextSelection<'a>>, sb: Vec<ResultTextSelection<'a>>) -> bool {
    let resource = sa[0].resource();
    let low = |v: &Vec<ResultTextSelection<'a>>| {
        let mut set = TextSelectionSet::new(resource.handle());
        for t in v.iter() {
            set.add(t.inner().clone());
        }
        set.sort();
        set
    };
    let (la, lb) = (low(&sa), low(&sb));
    if sb.len() == 1 {
        la.test(o, sb[0].inner(), resource.as_ref())
    } else {
        la.test_set(o, &lb, resource.as_ref())
    }
}

/// one relation test: singleton vs singleton through test(), otherwise through the set variants
fn relation_cell<'a>(o: &TextSelectionOperator, sa: Vec<ResultTextSelection<'a>>, sb: Vec<ResultTextSelection<'a>>, sorted: bool) -> bool {
    if sb.is_empty() {
        return false;
    }
    if sorted && sa.len() > 1 {
        return relation_cell_sorted(o, sa, sb);
    }
    if sa.len() == 1 && sb.len() == 1 {
        sa[0].test(o, &sb[0])
    } else if sa.len() == 1 {
        let setb: ResultTextSelectionSet = sb.into_iter().collect();
        sa[0].test_set(o, &setb)
    } else if sb.len() == 1 {
        let seta: ResultTextSelectionSet = sa.into_iter().collect();
        seta.test(o, &sb[0])
    } else {
        let seta: ResultTextSelectionSet = sa.into_iter().collect();
        let setb: ResultTextSelectionSet = sb.into_iter().collect();
        seta.test_set(o, &setb)
    }
}

/// regular expression text of an abstract pattern (sequence of groups of literal alternatives)
fn regex_of(pat: &Value) -> String {
    let mut s = String::new();
    for g in pat.as_array().expect("harness: pattern") {
        let alts: Vec<Vec<i64>> = serde_json::from_value(g["alts"].clone()).expect("harness: alts");
        let body: Vec<String> = alts.iter().map(|x| regex_escape(&text_of(x))).collect();
        s.push_str(if g["cap"].as_bool().unwrap_or(false) { "(" } else { "(?:" });
        s.push_str(&body.join("|"));
        s.push(')');
        if g["opt"].as_bool().unwrap_or(false) {
            s.push('?');
        }
    }
    s
}

fn regex_escape(t: &str) -> String {
    let mut out = String::new();
    for c in t.chars() {
        if "\\.+*?()|[]{}^$#&-~ \n".contains(c) {
            out.push_str(&format!("\\x{{{:x}}}", c as u32));
        } else {
            out.push(c);
        }
    }
    out
}

enum Cont<'a> {
    Res(ResultItem<'a, TextResource>),
    Sel(ResultTextSelection<'a>),
    None,
}

fn container<'a>(store: &'a AnnotationStore, c: &Value, style: IdStyle) -> Cont<'a> {
    match c["on"].as_str().unwrap_or("") {
        "res" => match store.resource(bi::<TextResource>(&rf(&c["res"]), style)) {
            Some(r) => Cont::Res(r),
            None => Cont::None,
        },
        "range" => match store.resource(bi::<TextResource>(&rf(&c["res"]), style)) {
            Some(r) => match r.textselection(&Offset::simple(c["b"].as_i64().unwrap() as usize, c["e"].as_i64().unwrap() as usize)) {
                Ok(ts) => Cont::Sel(ts),
                Err(_) => Cont::None,
            },
            None => Cont::None,
        },
        "ann" => match store.annotation(bi::<Annotation>(&rf(&c["ann"]), style)) {
            Some(a) => {
                let mut it = a.textselections();
                match (it.next(), it.next()) {
                    (Some(ts), None) => Cont::Sel(ts),
                    _ => Cont::None,
                }
            }
            None => Cont::None,
        },
        _ => Cont::None,
    }
}

fn ranges_json<'a, I: Iterator<Item = ResultTextSelection<'a>>>(it: I) -> Value {
    Value::Array(it.map(|t| json!([t.begin(), t.end()])).collect())
}

fn tsel_set<'a>(res: &ResultItem<'a, TextResource>, ranges: &Value) -> Option<Vec<ResultTextSelection<'a>>> {
    let mut v = Vec::new();
    for r in ranges.as_array()? {
        v.push(res.textselection(&Offset::simple(r[0].as_i64()? as usize, r[1].as_i64()? as usize)).ok()?);
    }
    Some(v)
}

/// Returns (outcome, result handle, api json)
pub fn read(ctx: &Ctx, op: &Op) -> (String, i64, Value) {
    let style = ctx.style;
    if op.ev == "FindData" {
        let (outcome, api) = crate::query::finddata_event(&ctx.store, &op.a, style);
        return (outcome, 0, api);
    }
    if op.ev == "Load" {
        let (outcome, api) = crate::load::load_event(ctx, &op.a);
        return (outcome, 0, api);
    }
    if op.ev == "ConcFree" {
        let a = &op.a;
        let r = catch_unwind(AssertUnwindSafe(|| {
            let dir = std::path::PathBuf::from(format!("/verif/work/concfree_{}", std::process::id()));
            let _ = std::fs::remove_dir_all(&dir);
            std::fs::create_dir_all(&dir).expect("harness: conc dir");
            let out = crate::sched::run_free(&a["shape"], a["ops"].as_array().unwrap(), a["big"].as_bool().unwrap_or(false), &dir);
            let _ = std::fs::remove_dir_all(&dir);
            out
        }));
        return match r {
            Ok(v) => ("ok".into(), 0, v),
            Err(_) => ("panic".into(), 0, json!({"has": true, "threads": [], "files": [], "leftovers": [], "alone": []})),
        };
    }
    if op.ev == "ConcRun" {
        let a = &op.a;
        let r = catch_unwind(AssertUnwindSafe(|| {
            let dir = std::path::PathBuf::from(format!("/verif/work/conc_{}", std::process::id()));
            std::fs::create_dir_all(&dir).expect("harness: conc dir");
            let sch: Vec<usize> = a["schedule"].as_array().unwrap().iter().map(|x| x.as_u64().unwrap() as usize).collect();
            let out = crate::sched::run(&a["shape"], a["ops"].as_array().unwrap(), &sch, &dir);
            let _ = std::fs::remove_dir_all(&dir);
            out
        }));
        return match r {
            Ok(v) => ("ok".into(), 0, v),
            Err(_) => ("panic".into(), 0, json!({"has": true, "threads": [], "files": [], "leftovers": [], "alone": []})),
        };
    }
    if op.ev == "Query" {
        let (outcome, api) = crate::query::query_event(&ctx.store, &op.a, style);
        return (outcome, 0, api);
    }
    if op.ev == "Parse" {
        let (outcome, api) = crate::query::parse_event(&op.a, style);
        return (outcome, 0, api);
    }
    let store = &ctx.store;
    let a = &op.a;
    let r = catch_unwind(AssertUnwindSafe(|| -> (i64, Value) {
        match op.ev.as_str() {
            "Lookup" => {
                let kind = a["kind"].as_str().unwrap_or("");
                let r = rf(&a["ref"]);
                let (h, id): (i64, String) = match kind {
                    "res" => store.resource(bi::<TextResource>(&r, style)).map(|x| (x.handle().as_usize() as i64 + 1, x.id().unwrap_or("").to_string())),
                    "set" => store.dataset(bi::<AnnotationDataSet>(&r, style)).map(|x| (x.handle().as_usize() as i64 + 1, x.id().unwrap_or("").to_string())),
                    "ann" => store.annotation(bi::<Annotation>(&r, style)).map(|x| (x.handle().as_usize() as i64 + 1, x.id().unwrap_or("").to_string())),
                    "key" => store
                        .key(bi::<AnnotationDataSet>(&rf(&a["set"]), style), bi::<DataKey>(&r, style))
                        .map(|x| (x.handle().as_usize() as i64 + 1, x.id().unwrap_or("").to_string())),
                    "data" => store
                        .annotationdata(bi::<AnnotationDataSet>(&rf(&a["set"]), style), bi::<AnnotationData>(&r, style))
                        .map(|x| (x.handle().as_usize() as i64 + 1, x.id().unwrap_or("").to_string())),
                    _ => None,
                }
                .unwrap_or((0, String::new()));
                (h, json!({"has": false, "id": style.abs(&id)}))
            }
            "WebAnno" => (0, crate::webanno::webanno(ctx, a)),
            "Validate" => {
                let total = store.validate_text(true);
                let mut verdicts: Vec<String> = Vec::new();
                for i in 0..store.annotations_len() {
                    verdicts.push(match store.annotation(AnnotationHandle::new(i)) {
                        None => String::new(),
                        Some(ann) => match ann.validate_text() {
                            Some(true) => "valid".into(),
                            Some(false) => "invalid".into(),
                            None => "missing".into(),
                        },
                    });
                }
                (0, json!({"ok": true, "valid": total.valid(), "invalid": total.invalid(), "missing": total.missing(), "verdicts": verdicts}))
            }
            "TextSel" => {
                let off = offset_of(&serde_json::from_value::<Off>(a["off"].clone()).unwrap());
                let res = match container(store, &a["c"], style) {
                    Cont::Res(r) => r.textselection(&off).ok(),
                    Cont::Sel(s) => s.textselection(&off).ok(),
                    Cont::None => None,
                };
                let tbo: Option<Vec<i64>> = match container(store, &a["c"], style) {
                    Cont::Res(r) => r.text_by_offset(&off).ok().map(codes_of),
                    Cont::Sel(s) => s.text_by_offset(&off).ok().map(codes_of),
                    Cont::None => None,
                };
                let (tbook, tbo) = match tbo {
                    Some(t) => (true, t),
                    None => (false, vec![]),
                };
                match res {
                    Some(ts) => (0, json!({"ok": true, "b": ts.begin(), "e": ts.end(), "text": codes_of(ts.text()), "tbook": tbook, "tbo": tbo})),
                    None => (0, json!({"ok": false, "b": 0, "e": 0, "text": [], "tbook": tbook, "tbo": tbo})),
                }
            }
            "AnnTextOf" => match store.annotation(bi::<Annotation>(&rf(&a["ann"]), style)) {
                Some(ann) => {
                    let texts: Vec<Vec<i64>> = ann.text().map(codes_of).collect();
                    let ranges: Vec<(i64, i64, i64)> =
                        ann.textselections().map(|t| (t.resource().handle().as_usize() as i64 + 1, t.begin() as i64, t.end() as i64)).collect();
                    (0, json!({"ok": true, "texts": texts, "ranges": ranges}))
                }
                None => (0, json!({"ok": false, "texts": [], "ranges": []})),
            },
            "OffsetReport" => match store.annotation(bi::<Annotation>(&rf(&a["ann"]), style)) {
                Some(ann) => match ann.as_ref().target().offset_with_mode(store, Some(mode_of(a["m"].as_i64().unwrap_or(0)))) {
                    Some(off) => (0, json!({"ok": true, "off": off_json(&off)})),
                    None => (0, json!({"ok": false, "off": no_off()})),
                },
                None => (0, json!({"ok": false, "off": no_off()})),
            },
            "Utf8Byte" | "ByteToChar" => {
                let p = a["p"].as_i64().unwrap_or(0).max(0) as usize;
                let byte = op.ev == "Utf8Byte";
                let res = match container(store, &a["c"], style) {
                    Cont::Res(r) => if byte { r.utf8byte(p) } else { r.utf8byte_to_charpos(p) }.ok(),
                    Cont::Sel(s) => if byte { s.utf8byte(p) } else { s.utf8byte_to_charpos(p) }.ok(),
                    Cont::None => None,
                };
                // the same question through the other form of a bound text selection (ResultItem<TextSelection>)
                let ires = match container(store, &a["c"], style) {
                    Cont::Sel(s) => match s.as_resultitem() {
                        Some(item) => if byte { item.utf8byte(p) } else { item.utf8byte_to_charpos(p) }.ok(),
                        None => res,
                    },
                    _ => res,
                };
                let (ok, v) = match res {
                    Some(v) => (true, v),
                    None => (false, 0),
                };
                let (iok, iv) = match ires {
                    Some(v) => (true, v),
                    None => (false, 0),
                };
                (0, json!({"ok": ok, "v": v, "iok": iok, "iv": iv}))
            }
            "TextOp" => {
                let needle_codes: Vec<i64> = serde_json::from_value(a["needle"].clone()).unwrap_or_default();
                let needle = text_of(&needle_codes);
                let chars: Vec<char> = needle.chars().collect();
                let opn = a["op"].as_str().unwrap_or("");
                let cont = container(store, &a["c"], style);
                let mut groups: Vec<i64> = Vec::new();
                let mut okflag = true;
                let ranges: Option<Value> = match (&cont, opn) {
                    (Cont::None, _) => None,
                    (Cont::Res(r), "find") => Some(ranges_json(r.find_text(&needle))),
                    (Cont::Sel(s), "find") => Some(ranges_json(s.find_text(&needle))),
                    (Cont::Res(r), "nocase") => Some(ranges_json(r.find_text_nocase(&needle))),
                    (Cont::Sel(s), "nocase") => Some(ranges_json(s.find_text_nocase(&needle))),
                    (Cont::Res(r), "split") => Some(ranges_json(r.split_text(&needle))),
                    (Cont::Sel(s), "split") => Some(ranges_json(s.split_text(&needle))),
                    (Cont::Res(r), "trim") => r.trim_text(&chars).ok().map(|t| ranges_json(std::iter::once(t))),
                    (Cont::Sel(s), "trim") => s.trim_text(&chars).ok().map(|t| ranges_json(std::iter::once(t))),
                    (Cont::Res(r), "segmentation") => Some(ranges_json(r.segmentation())),
                    (Cont::Sel(s), "segmentation") => Some(ranges_json(s.segmentation())),
                    (_, "regex") => {
                        let re = Regex::new(&regex_of(&a["pat"])).expect("harness: regex");
                        let exprs = [re];
                        let matches: Option<Vec<FindRegexMatch>> = match &cont {
                            Cont::Res(r) => r.find_text_regex(&exprs, None, false).ok().map(|it| it.collect()),
                            Cont::Sel(s) => s.find_text_regex(&exprs, None, false).ok().map(|it| it.collect()),
                            Cont::None => None,
                        };
                        matches.map(|ms| {
                            let mut out = Vec::new();
                            for m in ms.iter() {
                                for t in m.textselections() {
                                    out.push(json!([t.begin(), t.end()]));
                                }
                                for g in m.capturegroups() {
                                    groups.push(*g as i64);
                                }
                            }
                            Value::Array(out)
                        })
                    }
                    (_, "sequence") | (_, "sequence_nocase") => {
                        let frags: Vec<Vec<i64>> = serde_json::from_value(a["frags"].clone()).unwrap_or_default();
                        let frags: Vec<String> = frags.iter().map(|f| text_of(f)).collect();
                        let frefs: Vec<&str> = frags.iter().map(|f| f.as_str()).collect();
                        let cs = opn == "sequence";
                        let skip = |c: char| chars.contains(&c);
                        let found = match &cont {
                            Cont::Res(r) => r.find_text_sequence(&frefs, skip, cs),
                            Cont::Sel(s) => s.find_text_sequence(&frefs, skip, cs),
                            Cont::None => None,
                        };
                        match found {
                            Some(v) => Some(ranges_json(v.into_iter())),
                            None => {
                                okflag = false;
                                Some(json!([]))
                            }
                        }
                    }
                    _ => panic!("harness: unknown text op {}", opn),
                };
                match ranges {
                    Some(r) => (0, json!({"ok": okflag, "ranges": r, "groups": groups})),
                    None => (0, json!({"ok": false, "ranges": [], "groups": []})),
                }
            }
            "TestRelation" => {
                let o = operator_of(&a["o"]);
                let res = store.resource(bi::<TextResource>(&rf(&a["res"]), style));
                let v: Option<bool> = res.and_then(|res| {
                    let sa = tsel_set(&res, &a["A"])?;
                    let sb = tsel_set(&res, &a["B"])?;
                    if sa.is_empty() || sb.is_empty() {
                        return None;
                    }
                    Some(if sa.len() == 1 && sb.len() == 1 {
                        sa[0].test(&o, &sb[0])
                    } else if sa.len() == 1 {
                        let setb: ResultTextSelectionSet = sb.into_iter().collect();
                        sa[0].test_set(&o, &setb)
                    } else if sb.len() == 1 {
                        let seta: ResultTextSelectionSet = sa.into_iter().collect();
                        seta.test(&o, &sb[0])
                    } else {
                        let seta: ResultTextSelectionSet = sa.into_iter().collect();
                        let setb: ResultTextSelectionSet = sb.into_iter().collect();
                        seta.test_set(&o, &setb)
                    })
                });
                match v {
                    Some(v) => (0, json!({"ok": true, "v": v})),
                    None => (0, json!({"ok": false, "v": false})),
                }
            }
            "TestRelationRow" => {
                let o = operator_of(&a["o"]);
                let res = store.resource(bi::<TextResource>(&rf(&a["res"]), style));
                let v: Option<Vec<String>> = res.and_then(|res| {
                    let sa = tsel_set(&res, &a["A"])?;
                    if sa.is_empty() {
                        return None;
                    }
                    let mut cells = Vec::new();
                    for b in a["Bs"].as_array()? {
                        let sb = tsel_set(&res, b)?;
                        let sa = sa.clone();
                        // a panic in one cell is data for that cell only
                        let sorted = a["sorted"].as_bool().unwrap_or(false);
                        let cell = catch_unwind(AssertUnwindSafe(|| relation_cell(&o, sa, sb, sorted)));
                        cells.push(match cell {
                            Ok(true) => "T".to_string(),
                            Ok(false) => "F".to_string(),
                            Err(_) => "P".to_string(),
                        });
                    }
                    Some(cells)
                });
                match v {
                    Some(v) => (0, json!({"ok": true, "v": v})),
                    None => (0, json!({"ok": false, "v": []})),
                }
            }
            "RelatedRow" => {
                let res = store.resource(bi::<TextResource>(&rf(&a["res"]), style));
                let via = a["via"].as_str().unwrap_or("sel");
                let rows: Option<Vec<Value>> = res.and_then(|res| {
                    let mut rows = Vec::new();
                    for ov in a["os"].as_array()? {
                        let o = operator_of(ov);
                        let row = if via == "ann" {
                            let ann = store.annotation(bi::<Annotation>(&rf(&a["ann"]), style))?;
                            ann.textselections().next()?;
                            ranges_json(ann.related_text(o))
                        } else {
                            let sa = tsel_set(&res, &a["A"])?;
                            if sa.is_empty() {
                                return None;
                            }
                            if sa.len() == 1 {
                                ranges_json(sa[0].related_text(o))
                            } else {
                                let seta: ResultTextSelectionSet = sa.into_iter().collect();
                                ranges_json(seta.related_text(o))
                            }
                        };
                        rows.push(row);
                    }
                    Some(rows)
                });
                match rows {
                    Some(r) => (0, json!({"ok": true, "rows": r})),
                    None => (0, json!({"ok": false, "rows": []})),
                }
            }
            "RelatedText" => {
                let o = operator_of(&a["o"]);
                let res = store.resource(bi::<TextResource>(&rf(&a["res"]), style));
                let v: Option<Value> = res.and_then(|res| {
                    let sa = tsel_set(&res, &a["A"])?;
                    if sa.is_empty() {
                        return None;
                    }
                    Some(if sa.len() == 1 {
                        ranges_json(sa[0].related_text(o))
                    } else {
                        let seta: ResultTextSelectionSet = sa.into_iter().collect();
                        ranges_json(seta.related_text(o))
                    })
                });
                match v {
                    Some(r) => (0, json!({"ok": true, "ranges": r})),
                    None => (0, json!({"ok": false, "ranges": []})),
                }
            }
            other => panic!("harness: unknown read event {}", other),
        }
    }));
    match r {
        Ok((h, api)) => ("ok".into(), h, api),
        Err(_) => ("panic".into(), 0, json!({"has": false, "ok": false, "id": ""})),
    }
}

pub const READ_EVENTS: &[&str] =
    &["Lookup", "TextSel", "AnnTextOf", "OffsetReport", "Utf8Byte", "ByteToChar", "TextOp", "TestRelation", "RelatedText",
      "TestRelationRow", "RelatedRow", "Validate", "WebAnno", "Parse", "Query", "ConcRun", "ConcFree", "Load", "FindData"];
