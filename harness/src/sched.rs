//! C20: run reader operations of a shared store in real threads under a given schedule. The yield hook of the
//! library (cfg stam_verif) parks every thread at the points where shared interior-mutable state is read or written;
//! the scheduler lets exactly one thread run from one yield point to the next.
use serde_json::{json, Value};
use stam::*;
use std::sync::{Arc, Condvar, Mutex};

#[derive(Default)]
struct Sched {
    /// thread index that may pass its next yield point (usize::MAX = free running, no scheduling)
    turn: usize,
    /// threads currently parked at a yield point (or finished): index -> state
    parked: Vec<bool>,
    finished: Vec<bool>,
    tags: Vec<Vec<String>>,
}

thread_local! {
    static THREAD_INDEX: std::cell::Cell<usize> = std::cell::Cell::new(usize::MAX);
}

/// Build the store of a shape: members = [{"kind": "res"|"set", "standoff": bool, "changed": bool}]
pub fn build_store(shape: &Value, dir: &std::path::Path) -> AnnotationStore {
    let path = dir.join("conc.store.stam.json");
    let mut store = AnnotationStore::new(Config::default()).with_id("conc");
    store.set_filename(path.to_str().unwrap());
    let mut nres = 0;
    let mut nset = 0;
    for m in shape["members"].as_array().unwrap() {
        if m["kind"] == "res" {
            nres += 1;
            let h = store.add_resource(TextResourceBuilder::new().with_id(format!("r{}", nres)).with_text("abc")).unwrap();
            if m["standoff"].as_bool().unwrap() {
                let r: &mut TextResource = store.get_mut(h).unwrap();
                r.set_filename(&format!("r{}.txt", nres));
            }
        } else {
            nset += 1;
            let h = store.add_dataset(AnnotationDataSetBuilder::new().with_id(format!("s{}", nset))).unwrap();
            {
                let s: &mut AnnotationDataSet = store.get_mut(h).unwrap();
                s.insert_data(BuildItem::None, "k1", DataValue::from("v1"), true).unwrap();
                if m["standoff"].as_bool().unwrap() {
                    s.set_filename(&format!("s{}.annotationset.stam.json", nset));
                }
            }
        }
    }
    // write everything once so that stand-off files exist and members are unchanged
    store.save().expect("harness: save");
    // then mark the members that must be 'changed' by touching them
    let mut nres = 0;
    let mut nset = 0;
    for m in shape["members"].as_array().unwrap() {
        if m["kind"] == "res" {
            nres += 1;
        } else {
            nset += 1;
            if m["changed"].as_bool().unwrap() {
                let s: &mut AnnotationDataSet = store.get_mut(AnnotationDataSetHandle::new(nset - 1)).unwrap();
                s.insert_data(BuildItem::None, "k1", DataValue::from(format!("w{}", nset)), true).unwrap();
            }
        }
        let _ = nres;
    }
    store
}

fn run_op(store: &AnnotationStore, op: &Value) -> Value {
    // the forms in which the stand-off members appear in the output of this operation
    let text = match op["op"].as_str().unwrap() {
        "store" => store.to_json_string(store.config()).unwrap_or_else(|e| format!("ERROR {}", e)),
        "set" => {
            let i = op["rank"].as_u64().unwrap() as usize;
            let set = store.dataset(AnnotationDataSetHandle::new(i - 1)).expect("harness: dataset");
            <AnnotationDataSet as ToJson>::to_json_string(set.as_ref(), store.config()).unwrap_or_else(|e| format!("ERROR {}", e))
        }
        other => panic!("harness: unknown op {}", other),
    };
    match serde_json::from_str::<Value>(&text) {
        Ok(v) => {
            let form = |m: &Value| if m.get("@include").is_some() { "include" } else { "inline" };
            if op["op"] == "store" {
                let mut forms = Vec::new();
                for key in ["resources", "annotationsets"] {
                    for m in v[key].as_array().cloned().unwrap_or_default() {
                        forms.push(form(&m));
                    }
                }
                json!(forms)
            } else {
                json!([form(&v)])
            }
        }
        Err(_) => json!(["malformed"]),
    }
}

/// Execute ops (one per thread) under the schedule (sequence of 1-based thread indices; each entry lets that thread run
/// to its next yield point). Returns per thread: tags passed and the forms of its output.
pub fn run(shape: &Value, ops: &[Value], schedule: &[usize], dir: &std::path::Path) -> Value {
    let store = build_store(shape, dir);
    let n = ops.len();
    let state = Arc::new((Mutex::new(Sched { turn: usize::MAX, parked: vec![false; n], finished: vec![false; n], tags: vec![vec![]; n] }), Condvar::new()));
    {
        let state = state.clone();
        verif::set_yield_hook(Some(Box::new(move |tag: &'static str| {
            let me = THREAD_INDEX.with(|c| c.get());
            if me == usize::MAX {
                return; // not one of the scheduled threads
            }
            let (lock, cv) = &*state;
            let mut s = lock.lock().unwrap();
            s.tags[me].push(tag.to_string());
            s.parked[me] = true;
            cv.notify_all();
            while s.turn != me {
                s = cv.wait(s).unwrap();
            }
            s.turn = usize::MAX;
            s.parked[me] = false;
            cv.notify_all();
        })));
    }
    let outs: Vec<Value> = std::thread::scope(|scope| {
        let mut handles = Vec::new();
        for (i, op) in ops.iter().enumerate() {
            let state = state.clone();
            let store = &store;
            handles.push(scope.spawn(move || {
                THREAD_INDEX.with(|c| c.set(i));
                let out = run_op(store, op);
                let (lock, cv) = &*state;
                let mut s = lock.lock().unwrap();
                s.finished[i] = true;
                cv.notify_all();
                out
            }));
        }
        // wait until every thread is parked at its first yield point (or finished)
        let (lock, cv) = &*state;
        fn wait_quiescent<'a>(cv: &Condvar, n: usize, s: std::sync::MutexGuard<'a, Sched>) -> std::sync::MutexGuard<'a, Sched> {
            let mut s = s;
            while !(0..n).all(|i| s.parked[i] || s.finished[i]) || s.turn != usize::MAX {
                s = cv.wait(s).unwrap();
            }
            s
        }
        {
            let mut s = wait_quiescent(cv, n, lock.lock().unwrap());
            for t in schedule.iter() {
                let t = *t - 1;
                if s.finished[t] {
                    continue; // nothing left to do for this thread
                }
                s.turn = t;
                cv.notify_all();
                s = wait_quiescent(cv, n, s);
            }
            // let everything run to completion (a complete schedule leaves nothing parked)
            loop {
                let next = (0..n).find(|i| s.parked[*i] && !s.finished[*i]);
                match next {
                    Some(t) => {
                        s.turn = t;
                        cv.notify_all();
                        s = wait_quiescent(cv, n, s);
                    }
                    None => break,
                }
            }
        }
        handles.into_iter().map(|h| h.join().unwrap_or(json!(["panic"]))).collect()
    });
    verif::set_yield_hook(None);
    let s = state.0.lock().unwrap();
    json!({"has": true, "threads": (0..n).map(|i| json!({"tags": s.tags[i], "forms": outs[i]})).collect::<Vec<_>>()})
}
