//! C20: run reader operations of a shared store in real threads under a given schedule. The yield hook of the
//! library (cfg stam_verif) parks every thread at the points where shared interior-mutable state is read or written;
//! the scheduler lets exactly one thread run from one yield point to the next.
use serde_json::{json, Value};
use stam::*;
use std::sync::{Arc, Condvar, Mutex};

#[derive(Default)]
struct Sched {
    /// thread index that may pass its next yield point (usize::MAX = free running, no scheduling)
    turn: usize,
    /// threads currently parked at a yield point (or finished): index -> state
    parked: Vec<bool>,
    finished: Vec<bool>,
    tags: Vec<Vec<String>>,
}

thread_local! {
    static THREAD_INDEX: std::cell::Cell<usize> = std::cell::Cell::new(usize::MAX);
}

/// Build the store of a shape: members = [{"kind": "res"|"set", "standoff": bool, "changed": bool}]
pub fn resource_text(big: bool) -> String {
    if big {
        "abc\n".repeat(1_500_000)
    } else {
        "abc ".repeat(40) // (longer than an @include stub: see StamConcurrency!WriteOver)
    }
}

fn res_filename(n: usize, m: &Value, renamed: bool) -> String {
    let ext = if m["fmt"] == "txt" { "txt" } else { "resource.stam.json" };
    format!("r{}{}.{}", n, if renamed { "b" } else { "" }, ext)
}

pub fn build_store(shape: &Value, dir: &std::path::Path, big: bool) -> AnnotationStore {
    let path = dir.join("conc.store.stam.json");
    let mut store = AnnotationStore::new(Config::default()).with_id("conc");
    store.set_filename(path.to_str().unwrap());
    let mut nres = 0;
    let mut nset = 0;
    for m in shape["members"].as_array().unwrap() {
        if m["kind"] == "res" {
            nres += 1;
            let h = store.add_resource(TextResourceBuilder::new().with_id(format!("r{}", nres)).with_text(resource_text(big))).unwrap();
            if m["standoff"].as_bool().unwrap() {
                let r: &mut TextResource = store.get_mut(h).unwrap();
                r.set_filename(&res_filename(nres, m, false));
            }
        } else {
            nset += 1;
            let h = store.add_dataset(AnnotationDataSetBuilder::new().with_id(format!("s{}", nset))).unwrap();
            {
                let s: &mut AnnotationDataSet = store.get_mut(h).unwrap();
                s.insert_data(BuildItem::None, "k1", DataValue::from("v1"), true).unwrap();
                if m["standoff"].as_bool().unwrap() {
                    s.set_filename(&format!("s{}.annotationset.stam.json", nset));
                }
            }
        }
    }
    // a few annotations for the iterating / searching / querying readers (they do not change how members are serialised)
    if nres > 0 {
        for (i, (b, e)) in [(0usize, 3usize), (1, 2), (4, 7), (0, 3)].iter().enumerate() {
            store
                .annotate(
                    AnnotationBuilder::new()
                        .with_id(format!("p{}", i))
                        .with_target(SelectorBuilder::textselector("r1", Offset::simple(*b, *e))),
                )
                .expect("harness: annotate");
        }
    }
    // write everything once so that stand-off files exist and members are unchanged
    store.save().expect("harness: save");
    // then mark the members that must be 'changed' by touching them
    let mut nres = 0;
    let mut nset = 0;
    for m in shape["members"].as_array().unwrap() {
        if m["kind"] == "res" {
            nres += 1;
            // a new file name for the text: the resource is 'changed' and the file does not exist yet
            if m["standoff"].as_bool().unwrap() && m["changed"].as_bool().unwrap() {
                let r: &mut TextResource = store.get_mut(TextResourceHandle::new(nres - 1)).unwrap();
                r.set_filename(&res_filename(nres, m, true));
            }
        } else {
            nset += 1;
            if m["changed"].as_bool().unwrap() {
                let s: &mut AnnotationDataSet = store.get_mut(AnnotationDataSetHandle::new(nset - 1)).unwrap();
                s.insert_data(BuildItem::None, "k1", DataValue::from(format!("w{}", nset)), true).unwrap();
            }
        }
    }
    store
}

/// the state of every member's stand-off file: "none" (inline member), "missing", "complete", "corrupt"
pub fn files_state(shape: &Value, dir: &std::path::Path, big: bool) -> Value {
    let mut nres = 0;
    let mut nset = 0;
    let mut out = Vec::new();
    for m in shape["members"].as_array().unwrap() {
        let isres = m["kind"] == "res";
        if isres {
            nres += 1;
        } else {
            nset += 1;
        }
        if !m["standoff"].as_bool().unwrap() {
            out.push("none");
            continue;
        }
        let name = if isres { res_filename(nres, m, m["changed"].as_bool().unwrap()) } else { format!("s{}.annotationset.stam.json", nset) };
        let state = match std::fs::read_to_string(dir.join(&name)) {
            Err(_) => "missing",
            Ok(content) => {
                if isres && m["fmt"] == "txt" {
                    if content == resource_text(big) { "complete" } else { "corrupt" }
                } else {
                    match serde_json::from_str::<Value>(&content) {
                        _ if content.is_empty() => "empty",
                        Ok(v) if v.get("@include").is_some() => "selfinclude",
                        Ok(v) if v.get("@type").is_some() => "complete",
                        _ => {
                            if std::env::var("VERIF_DEBUG_FILES").is_ok() {
                                eprintln!("corrupt {}: {:?}", name, &content[..content.len().min(300)]);
                            }
                            "corrupt"
                        }
                    }
                }
            }
        };
        out.push(state);
    }
    // nothing but the stand-off files and the store file may be left behind
    json!(out)
}

/// C20, free-running: the threads are released together and run without a scheduler; the hook only records the tags
pub fn run_free(shape: &Value, ops: &[Value], big: bool, dir: &std::path::Path) -> Value {
    let store = build_store(shape, dir, big);
    let n = ops.len();
    let alone: Vec<String> = ops.iter().map(|op| if op["op"] == "par" { par_digest(&store) } else { String::new() }).collect();
    let tags: Arc<Mutex<Vec<Vec<String>>>> = Arc::new(Mutex::new(vec![vec![]; n]));
    {
        let tags = tags.clone();
        verif::set_yield_hook(Some(Box::new(move |tag: &'static str| {
            let me = THREAD_INDEX.with(|c| c.get());
            if me != usize::MAX {
                tags.lock().unwrap()[me].push(tag.to_string());
            }
        })));
    }
    let barrier = std::sync::Barrier::new(n);
    let outs: Vec<Value> = std::thread::scope(|scope| {
        let mut handles = Vec::new();
        for (i, op) in ops.iter().enumerate() {
            let store = &store;
            let barrier = &barrier;
            handles.push(scope.spawn(move || {
                THREAD_INDEX.with(|c| c.set(i));
                barrier.wait();
                run_op(store, op)
            }));
        }
        handles.into_iter().map(|h| h.join().unwrap_or(json!(["panic"]))).collect()
    });
    verif::set_yield_hook(None);
    let t = tags.lock().unwrap();
    let leftovers = leftover_files(dir);
    json!({"has": true, "threads": (0..n).map(|i| json!({"tags": t[i], "forms": outs[i]})).collect::<Vec<_>>(),
           "files": files_state(shape, dir, big), "leftovers": leftovers, "alone": alone})
}

/// files in the work directory that are neither the store nor a stand-off member
fn leftover_files(dir: &std::path::Path) -> Vec<String> {
    let mut v: Vec<String> = std::fs::read_dir(dir)
        .map(|rd| rd.filter_map(|e| e.ok()).map(|e| e.file_name().to_string_lossy().to_string()).collect())
        .unwrap_or_default();
    v.retain(|f| !(f.ends_with(".stam.json") || f.ends_with(".txt")));
    v.sort();
    v
}

/// a reader that only iterates, searches and queries (sequentially and through the parallel adaptors): a digest of what it saw
fn par_digest(store: &AnnotationStore) -> String {
    use rayon::prelude::*;
    let mut out = String::new();
    let mut hs: Vec<usize> = store.annotations().parallel().map(|a| a.handle().as_usize() * 31 + a.text_simple().map(|t| t.len()).unwrap_or(99)).collect();
    hs.sort();
    out.push_str(&format!("A{:?}", hs));
    let mut ds: Vec<(usize, usize)> = store.data().parallel().map(|d| (d.set().handle().as_usize(), d.annotations().count())).collect();
    ds.sort();
    out.push_str(&format!("D{:?}", ds));
    let seq: Vec<usize> = store.annotations().map(|a| a.handle().as_usize() * 31 + a.text_simple().map(|t| t.len()).unwrap_or(99)).collect();
    out.push_str(&format!("S{:?}", seq));
    if let Some(r) = store.resources().next() {
        let found: Vec<(usize, usize)> = r.find_text("b").map(|t| (t.begin(), t.end())).collect();
        out.push_str(&format!("F{:?}", found));
        let rel: usize = r.annotations().map(|a| a.related_text(TextSelectionOperator::overlaps()).count()).sum();
        out.push_str(&format!("R{}", rel));
    }
    let q: Result<Query, _> = "SELECT ANNOTATION ?a WHERE RESOURCE \"r1\";".try_into();
    match q.and_then(|q| store.query(q).map(|it| it.count())) {
        Ok(n) => out.push_str(&format!("Q{}", n)),
        Err(e) => out.push_str(&format!("QERR{}", e)),
    }
    out
}

fn run_op(store: &AnnotationStore, op: &Value) -> Value {
    if op["op"] == "par" {
        return json!([par_digest(store)]);
    }
    // the forms in which the stand-off members appear in the output of this operation
    let text = match op["op"].as_str().unwrap() {
        "store" => store.to_json_string(store.config()).unwrap_or_else(|e| format!("ERROR {}", e)),
        "set" => {
            let i = op["rank"].as_u64().unwrap() as usize;
            let set = store.dataset(AnnotationDataSetHandle::new(i - 1)).expect("harness: dataset");
            <AnnotationDataSet as ToJson>::to_json_string(set.as_ref(), store.config()).unwrap_or_else(|e| format!("ERROR {}", e))
        }
        other => panic!("harness: unknown op {}", other),
    };
    match serde_json::from_str::<Value>(&text) {
        Ok(v) => {
            let form = |m: &Value| if m.get("@include").is_some() { "include" } else { "inline" };
            if op["op"] == "store" {
                let mut forms = Vec::new();
                for key in ["resources", "annotationsets"] {
                    for m in v[key].as_array().cloned().unwrap_or_default() {
                        forms.push(form(&m));
                    }
                }
                json!(forms)
            } else {
                json!([form(&v)])
            }
        }
        Err(_) => json!(["malformed"]),
    }
}

/// Execute ops (one per thread) under the schedule (sequence of 1-based thread indices; each entry lets that thread run
/// to its next yield point). Returns per thread: tags passed and the forms of its output.
pub fn run(shape: &Value, ops: &[Value], schedule: &[usize], dir: &std::path::Path) -> Value {
    let store = build_store(shape, dir, false);
    let n = ops.len();
    let alone: Vec<String> = ops.iter().map(|op| if op["op"] == "par" { par_digest(&store) } else { String::new() }).collect();
    let state = Arc::new((Mutex::new(Sched { turn: usize::MAX, parked: vec![false; n], finished: vec![false; n], tags: vec![vec![]; n] }), Condvar::new()));
    {
        let state = state.clone();
        verif::set_yield_hook(Some(Box::new(move |tag: &'static str| {
            let me = THREAD_INDEX.with(|c| c.get());
            if me == usize::MAX {
                return; // not one of the scheduled threads
            }
            let (lock, cv) = &*state;
            let mut s = lock.lock().unwrap();
            s.tags[me].push(tag.to_string());
            s.parked[me] = true;
            cv.notify_all();
            while s.turn != me {
                s = cv.wait(s).unwrap();
            }
            s.turn = usize::MAX;
            s.parked[me] = false;
            cv.notify_all();
        })));
    }
    let outs: Vec<Value> = std::thread::scope(|scope| {
        let mut handles = Vec::new();
        for (i, op) in ops.iter().enumerate() {
            let state = state.clone();
            let store = &store;
            handles.push(scope.spawn(move || {
                THREAD_INDEX.with(|c| c.set(i));
                let out = run_op(store, op);
                let (lock, cv) = &*state;
                let mut s = lock.lock().unwrap();
                s.finished[i] = true;
                cv.notify_all();
                out
            }));
        }
        // wait until every thread is parked at its first yield point (or finished)
        let (lock, cv) = &*state;
        fn wait_quiescent<'a>(cv: &Condvar, n: usize, s: std::sync::MutexGuard<'a, Sched>) -> std::sync::MutexGuard<'a, Sched> {
            let mut s = s;
            while !(0..n).all(|i| s.parked[i] || s.finished[i]) || s.turn != usize::MAX {
                s = cv.wait(s).unwrap();
            }
            s
        }
        {
            let mut s = wait_quiescent(cv, n, lock.lock().unwrap());
            for t in schedule.iter() {
                let t = *t - 1;
                if s.finished[t] {
                    continue; // nothing left to do for this thread
                }
                s.turn = t;
                cv.notify_all();
                s = wait_quiescent(cv, n, s);
            }
            // let everything run to completion (a complete schedule leaves nothing parked)
            loop {
                let next = (0..n).find(|i| s.parked[*i] && !s.finished[*i]);
                match next {
                    Some(t) => {
                        s.turn = t;
                        cv.notify_all();
                        s = wait_quiescent(cv, n, s);
                    }
                    None => break,
                }
            }
        }
        handles.into_iter().map(|h| h.join().unwrap_or(json!(["panic"]))).collect()
    });
    verif::set_yield_hook(None);
    let s = state.0.lock().unwrap();
    json!({"has": true, "threads": (0..n).map(|i| json!({"tags": s.tags[i], "forms": outs[i]})).collect::<Vec<_>>(),
           "files": files_state(shape, dir, false), "leftovers": leftover_files(dir), "alone": alone})
}
