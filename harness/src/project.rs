//! Projection: store -> abstract state. The ONLY place that reads the store's internals
//! (through the read-only `verif_dump` hook) besides the public API.
use crate::concretise::*;
use crate::model::*;
use serde_json::Value;
use stam::*;

fn mode_num(m: &OffsetMode) -> i64 {
    match m {
        OffsetMode::BeginBegin => 0,
        OffsetMode::BeginEnd => 1,
        OffsetMode::EndEnd => 2,
        OffsetMode::EndBegin => 3,
    }
}

fn leaf_of(sel: &Selector) -> Option<PLeaf> {
    let l = |k: &str, a: usize, b: i64, c: i64, m: i64| PLeaf { k: k.into(), a: a as i64 + 1, b, c, m };
    match sel {
        Selector::TextSelector(r, t, m) => Some(l("Text", r.as_usize(), t.as_usize() as i64 + 1, 0, mode_num(m))),
        Selector::ResourceSelector(r) => Some(l("Res", r.as_usize(), 0, 0, 0)),
        Selector::AnnotationSelector(a, None) => Some(l("Ann", a.as_usize(), 0, 0, 0)),
        Selector::AnnotationSelector(a, Some((r, t, m))) => {
            Some(l("AnnText", a.as_usize(), t.as_usize() as i64 + 1, r.as_usize() as i64 + 1, mode_num(m)))
        }
        Selector::DataSetSelector(s) => Some(l("Set", s.as_usize(), 0, 0, 0)),
        Selector::DataKeySelector(s, k) => Some(l("Key", s.as_usize(), k.as_usize() as i64 + 1, 0, 0)),
        Selector::AnnotationDataSelector(s, d) => Some(l("Data", s.as_usize(), d.as_usize() as i64 + 1, 0, 0)),
        _ => None,
    }
}

fn rows2(v: &Value) -> Rows {
    // RelationMap dump: [[b...]...] -> entries (a+1, 0, [b+1...]) for non-empty rows
    let mut out = Rows::new();
    if let Some(arr) = v.as_array() {
        for (a, row) in arr.iter().enumerate() {
            let r: Vec<i64> = row.as_array().map(|x| x.iter().map(|h| h.as_i64().unwrap() + 1).collect()).unwrap_or_default();
            if !r.is_empty() {
                out.push((a as i64 + 1, 0, r));
            }
        }
    }
    out
}

fn rows3(v: &Value) -> Rows {
    let mut out = Rows::new();
    if let Some(arr) = v.as_array() {
        for (a, inner) in arr.iter().enumerate() {
            if let Some(inner) = inner.as_array() {
                for (b, row) in inner.iter().enumerate() {
                    let r: Vec<i64> =
                        row.as_array().map(|x| x.iter().map(|h| h.as_i64().unwrap() + 1).collect()).unwrap_or_default();
                    if !r.is_empty() {
                        out.push((a as i64 + 1, b as i64 + 1, r));
                    }
                }
            }
        }
    }
    out
}

fn rows_btree(v: &Value) -> Rows {
    let mut out = Rows::new();
    if let Some(arr) = v.as_array() {
        for e in arr {
            let a = e[0].as_i64().unwrap() + 1;
            let r: Vec<i64> = e[1].as_array().unwrap().iter().map(|h| h.as_i64().unwrap() + 1).collect();
            if !r.is_empty() {
                out.push((a, 0, r));
            }
        }
    }
    out
}

fn idmap(v: &Value, style: IdStyle) -> Vec<(String, i64)> {
    let mut out = Vec::new();
    if let Some(arr) = v.as_array() {
        for e in arr {
            out.push((style.abs_at(e[0].as_str().unwrap(), e[1].as_i64().unwrap() + 1), e[1].as_i64().unwrap() + 1));
        }
    }
    out
}

use sha1::{Digest, Sha1};
use std::cell::RefCell;
use std::collections::HashMap;

thread_local! {
    /// SHA-1 (hex) -> the text (as codes) it is the digest of, for every text an annotation of this behaviour has
    /// ever selected. The digests are computed here, not asked of the library.
    static SHA_TABLE: RefCell<HashMap<String, Vec<i64>>> = RefCell::new(HashMap::new());
}

pub fn reset_sha_table() {
    SHA_TABLE.with(|t| t.borrow_mut().clear());
}

fn remember_texts(store: &AnnotationStore) {
    SHA_TABLE.with(|t| {
        let mut t = t.borrow_mut();
        for a in store.annotations() {
            let text: String = a.textselections().map(|ts| ts.text().to_string()).collect();
            if !text.is_empty() {
                let mut hasher = Sha1::new();
                hasher.update(text.as_bytes());
                t.insert(base16ct::lower::encode_string(&hasher.finalize()), codes_of(&text));
            }
        }
    });
}

fn codes_val(tag: &str, codes: &[i64]) -> Val {
    Val { t: tag.into(), s: String::new(), n: 0, l: codes.iter().map(|c| Val::int(*c)).collect() }
}

/// values of the text-validation dataset are texts and digests of texts
pub fn tv_val(keyid: &str, v: &DataValue, style: IdStyle) -> Val {
    match (keyid, v) {
        ("text", DataValue::String(s)) => codes_val("text", &codes_of(s)),
        ("checksum", DataValue::String(s)) => match SHA_TABLE.with(|t| t.borrow().get(s).cloned()) {
            Some(codes) => codes_val("sha1", &codes),
            None => Val { t: "sha1".into(), s: format!("?{}", s), n: 0, l: vec![] },
        },
        _ => val_of(v, style),
    }
}

pub fn project(store: &AnnotationStore, style: IdStyle) -> (PState, Vec<PPos>) {
    remember_texts(store);
    let dump = store.verif_dump();
    let mut st = PState::default();
    let mut pos: Vec<PPos> = Vec::new();

    // resources
    for (i, rd) in dump["resources"].as_array().unwrap().iter().enumerate() {
        if rd.is_null() {
            st.res.push(PRes { id: String::new(), alive: false, text: vec![], tsel: vec![] });
            pos.push(vec![]);
            continue;
        }
        let r = store.resource(TextResourceHandle::new(i)).expect("resource slot is live in dump");
        let tsel: Vec<(i64, i64)> = rd["textselections"]
            .as_array()
            .unwrap()
            .iter()
            .map(|t| if t.is_null() { (-1, -1) } else { (t[0].as_i64().unwrap(), t[1].as_i64().unwrap()) })
            .collect();
        st.res.push(PRes { id: style.abs(r.id().unwrap_or("")), alive: true, text: codes_of(r.text()), tsel });
        let mut p: PPos = Vec::new();
        for e in rd["positionindex"].as_array().unwrap() {
            let b2e: Vec<(i64, i64)> =
                e[2].as_array().unwrap().iter().map(|x| (x[0].as_i64().unwrap(), x[1].as_i64().unwrap() + 1)).collect();
            let e2b: Vec<(i64, i64)> =
                e[3].as_array().unwrap().iter().map(|x| (x[0].as_i64().unwrap(), x[1].as_i64().unwrap() + 1)).collect();
            p.push((e[0].as_i64().unwrap(), e[1].as_i64().unwrap(), b2e, e2b));
        }
        pos.push(p);
    }

    // datasets
    for (i, sd) in dump["annotationsets"].as_array().unwrap().iter().enumerate() {
        if sd.is_null() {
            st.sets.push(PSet { id: String::new(), alive: false, keys: vec![], data: vec![], kidm: vec![], didm: vec![], kdm: vec![] });
            continue;
        }
        let set = store.dataset(AnnotationDataSetHandle::new(i)).expect("dataset slot is live in dump");
        let mut keys = Vec::new();
        for k in sd["keys"].as_array().unwrap() {
            if k.is_null() {
                keys.push(PKey { id: String::new(), alive: false });
            } else {
                keys.push(PKey { id: style.abs(k.as_str().unwrap_or("")), alive: true });
            }
        }
        let mut data = Vec::new();
        for (j, d) in sd["data"].as_array().unwrap().iter().enumerate() {
            if d.is_null() {
                data.push(PData { id: String::new(), alive: false, key: 0, val: Val::null() });
            } else {
                let item = set.as_ref().annotationdata(AnnotationDataHandle::new(j)).expect("data slot is live in dump");
                let val = if set.id() == Some(TV_SET) {
                    let keyid = set.key(item.key()).and_then(|k| k.id().map(|s| s.to_string())).unwrap_or_default();
                    tv_val(&keyid, item.value(), style)
                } else {
                    val_of(item.value(), style)
                };
                data.push(PData { id: style.abs(d[0].as_str().unwrap_or("")), alive: true, key: d[1].as_i64().unwrap() + 1, val });
            }
        }
        st.sets.push(PSet {
            id: style.abs(set.id().unwrap_or("")),
            alive: true,
            keys,
            data,
            kidm: idmap(&sd["key_idmap"], style),
            didm: idmap(&sd["data_idmap"], style),
            kdm: rows2(&sd["key_data_map"]),
        });
    }

    // annotations
    for (i, ad) in dump["annotations"].as_array().unwrap().iter().enumerate() {
        if ad.is_null() {
            st.anns.push(PAnn { id: String::new(), alive: false, kind: String::new(), leaves: vec![], data: vec![] });
            continue;
        }
        let a = store.annotation(AnnotationHandle::new(i)).expect("annotation slot is live in dump");
        let target = a.as_ref().target();
        let kind = match target {
            Selector::MultiSelector(_) => "Multi",
            Selector::CompositeSelector(_) => "Composite",
            Selector::DirectionalSelector(_) => "Directional",
            _ => "Simple",
        };
        let leaves: Vec<PLeaf> = target.iter(store, false).filter_map(|s| leaf_of(s.as_ref())).collect();
        let data: Vec<(i64, i64)> =
            a.as_ref().raw_data().iter().map(|(s, d)| (s.as_usize() as i64 + 1, d.as_usize() as i64 + 1)).collect();
        st.anns.push(PAnn { id: style.abs_at(ad[1].as_str().unwrap_or(""), i as i64 + 1), alive: true, kind: kind.into(), leaves, data });
    }

    st.idm = PIdm {
        res: idmap(&dump["resource_idmap"], style),
        set: idmap(&dump["dataset_idmap"], style),
        ann: idmap(&dump["annotation_idmap"], style),
    };
    st.ix = PIx {
        dda: rows3(&dump["dataset_data_annotation_map"]),
        trm: rows3(&dump["textrelationmap"]),
        ram: rows2(&dump["resource_annotation_metamap"]),
        sam: rows2(&dump["dataset_annotation_metamap"]),
        aam: rows_btree(&dump["annotation_annotation_map"]),
        kam: rows3(&dump["key_annotation_metamap"]),
        dam: rows3(&dump["data_annotation_metamap"]),
    };
    (st, pos)
}
