//! Drivers: execute one abstract operation on the real store. No expected values are computed
//! here; the outcome (ok / err / panic) and the projected state are logged for TLC to judge.
use crate::concretise::*;
use crate::model::*;
use serde_json::Value;
use stam::*;
use std::panic::{catch_unwind, AssertUnwindSafe};

pub struct Ctx {
    pub store: AnnotationStore,
    pub style: IdStyle,
    pub extra: Value,
    pub dir: Option<std::path::PathBuf>,
}

pub fn bi<'a, T: Storable>(r: &Ref, style: IdStyle) -> BuildItem<'a, T>
where
    T::HandleType: Handle,
{
    match r.by.as_str() {
        "id" => BuildItem::Id(style.conc(&r.id)),
        "h" => BuildItem::Handle(T::HandleType::new((r.h - 1).max(0) as usize)),
        "temp" => BuildItem::Id(format!("!{}{}", r.tl, r.tn)),
        _ => BuildItem::None,
    }
}

fn cursor(k: &str, v: i64) -> Cursor {
    if k == "B" {
        Cursor::BeginAligned(v.max(0) as usize)
    } else {
        Cursor::EndAligned(v as isize)
    }
}

pub fn offset_of(o: &Off) -> Offset {
    Offset::new(cursor(&o.bk, o.bv), cursor(&o.ek, o.ev))
}

pub fn selector_builder<'a>(tb: &TB, style: IdStyle) -> Option<SelectorBuilder<'a>> {
    Some(match tb.kind.as_str() {
        "Text" => SelectorBuilder::TextSelector(bi(&tb.a, style), offset_of(&tb.off)),
        "Res" => SelectorBuilder::ResourceSelector(bi(&tb.a, style)),
        "Ann" => SelectorBuilder::AnnotationSelector(bi(&tb.a, style), if tb.off.has { Some(offset_of(&tb.off)) } else { None }),
        "Set" => SelectorBuilder::DataSetSelector(bi(&tb.a, style)),
        "Key" => SelectorBuilder::DataKeySelector(bi(&tb.a, style), bi(&tb.b, style)),
        "Data" => SelectorBuilder::AnnotationDataSelector(bi(&tb.a, style), bi(&tb.b, style)),
        "Multi" => SelectorBuilder::MultiSelector(tb.subs.iter().filter_map(|s| selector_builder(s, style)).collect()),
        "Composite" => SelectorBuilder::CompositeSelector(tb.subs.iter().filter_map(|s| selector_builder(s, style)).collect()),
        "Directional" => SelectorBuilder::DirectionalSelector(tb.subs.iter().filter_map(|s| selector_builder(s, style)).collect()),
        _ => return None,
    })
}

pub fn data_builder<'a>(db: &DB, style: IdStyle) -> AnnotationDataBuilder<'a> {
    AnnotationDataBuilder::new()
        .with_dataset(bi(&db.set, style))
        .with_key(bi(&db.key, style))
        .with_id(bi(&db.id, style))
        .with_value(value_of(&db.val, style))
}

pub fn annotation_builder<'a>(a: &Value, style: IdStyle) -> AnnotationBuilder<'a> {
    let id = a["id"].as_str().unwrap_or("");
    let tb: TB = serde_json::from_value(a["target"].clone()).expect("harness: target builder");
    let dbs: Vec<DB> = serde_json::from_value(a["data"].clone()).expect("harness: data builders");
    let mut b = AnnotationBuilder::new();
    if !id.is_empty() {
        b = b.with_id(style.conc(id));
    }
    if let Some(sb) = selector_builder(&tb, style) {
        b = b.with_target(sb);
    }
    for db in dbs.iter() {
        b = b.with_data_builder(data_builder(db, style));
    }
    b
}

fn rf(v: &Value) -> Ref {
    serde_json::from_value(v.clone()).expect("harness: ref")
}

/// Returns (outcome, result handle 1-based or 0)
pub fn apply(ctx: &mut Ctx, op: &Op) -> (String, i64) {
    let style = ctx.style;
    let a = &op.a;
    if op.ev == "RoundTrip" {
        return crate::roundtrip::roundtrip(ctx, a);
    }
    let store = &mut ctx.store;
    // argument decoding happens outside catch_unwind: a malformed input is a harness error, not a verdict
    let prepared_annotation = if op.ev == "Annotate" { Some(annotation_builder(a, style)) } else { None };
    let mut prepared_annotation = prepared_annotation;
    let r = catch_unwind(AssertUnwindSafe(|| -> Result<i64, StamError> {
        match op.ev.as_str() {
            "AddResource" => {
                let text: Vec<i64> = serde_json::from_value(a["text"].clone()).unwrap();
                let mut b = TextResourceBuilder::new().with_text(text_of(&text));
                let id = a["id"].as_str().unwrap_or("");
                if !id.is_empty() {
                    b = b.with_id(style.conc(id));
                }
                store.add_resource(b).map(|h| h.as_usize() as i64 + 1)
            }
            "AddDataset" => {
                let mut b = AnnotationDataSetBuilder::new();
                let id = a["id"].as_str().unwrap_or("");
                if !id.is_empty() {
                    b = b.with_id(style.conc(id));
                }
                store.add_dataset(b).map(|h| h.as_usize() as i64 + 1)
            }
            "AddKey" => {
                let set: &mut AnnotationDataSet = store.get_mut(bi::<AnnotationDataSet>(&rf(&a["set"]), style))?;
                let id = a["id"].as_str().unwrap_or("");
                if id.is_empty() {
                    return Err(StamError::OtherError("harness: empty key id"));
                }
                set.insert(DataKey::new(style.conc(id))).map(|h| h.as_usize() as i64 + 1)
            }
            "InsertData" => {
                let db = DB { set: rf(&a["set"]), key: rf(&a["key"]), id: rf(&a["id"]), val: serde_json::from_value(a["val"].clone()).unwrap() };
                if a["safety"].as_bool().unwrap_or(true) {
                    store.insert_data(data_builder(&db, style)).map(|(_, d)| d.as_usize() as i64 + 1)
                } else {
                    let set: &mut AnnotationDataSet = store.get_mut(bi::<AnnotationDataSet>(&db.set, style))?;
                    set.insert_data(bi::<AnnotationData>(&db.id, style), bi::<DataKey>(&db.key, style), value_of(&db.val, style), false)
                        .map(|d| d.as_usize() as i64 + 1)
                }
            }
            "Annotate" => store.annotate(prepared_annotation.take().unwrap()).map(|h| h.as_usize() as i64 + 1),
            "RemoveAnnotation" => store.remove_annotation(bi::<Annotation>(&rf(&a["ann"]), style)).map(|_| 0),
            "RemoveResource" => store.remove_resource(bi::<TextResource>(&rf(&a["res"]), style)).map(|_| 0),
            "RemoveDataset" => store.remove_dataset(bi::<AnnotationDataSet>(&rf(&a["set"]), style)).map(|_| 0),
            "RemoveData" => store
                .remove_data(
                    bi::<AnnotationDataSet>(&rf(&a["set"]), style),
                    bi::<AnnotationData>(&rf(&a["data"]), style),
                    a["strict"].as_bool().unwrap_or(true),
                )
                .map(|_| 0),
            "RemoveKey" => store
                .remove_key(
                    bi::<AnnotationDataSet>(&rf(&a["set"]), style),
                    bi::<DataKey>(&rf(&a["key"]), style),
                    a["strict"].as_bool().unwrap_or(true),
                )
                .map(|_| 0),
            "StripAnnotationIds" => {
                store.strip_annotation_ids();
                Ok(0)
            }
            "Transpose" => {
                let tag = a["tag"].as_str().unwrap_or("");
                let builders = {
                    let src = store
                        .annotation(bi::<Annotation>(&rf(&a["src"]), style))
                        .ok_or(StamError::OtherError("harness: source annotation does not resolve"))?;
                    let via = store
                        .annotation(bi::<Annotation>(&rf(&a["via"]), style))
                        .ok_or(StamError::OtherError("harness: transposition does not resolve"))?;
                    let mut cfg = TransposeConfig::default();
                    cfg.transposition_id = Some(style.conc(&format!("tp{}", tag)));
                    cfg.resegmentation_id = Some(style.conc(&format!("rs{}", tag)));
                    cfg.target_side_ids = ["a", "b", "c"].iter().map(|x| style.conc(&format!("tt{}{}", tag, x))).collect();
                    src.transpose(&via, cfg)?
                };
                store.annotate_from_iter(builders)?;
                Ok(0)
            }
            "ProtectText" => {
                let mode = match a["mode"].as_str().unwrap_or("auto") {
                    "checksum" => TextValidationMode::Checksum,
                    "text" => TextValidationMode::Text,
                    "both" => TextValidationMode::Both,
                    _ => TextValidationMode::Auto,
                };
                store.protect_text(mode).map(|_| 0)
            }
            "ShrinkToFit" => {
                store.shrink_to_fit(true);
                Ok(0)
            }
            "StripDataIds" => {
                store.strip_data_ids();
                Ok(0)
            }
            other => panic!("harness: unknown event {}", other),
        }
    }));
    match r {
        Ok(Ok(h)) => ("ok".into(), h),
        Ok(Err(_)) => ("err".into(), 0),
        Err(_) => ("panic".into(), 0),
    }
}
