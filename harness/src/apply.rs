//! Drivers: execute one abstract operation on the real store. No expected values are computed
//! here; the outcome (ok / err / panic) and the projected state are logged for TLC to judge.
use crate::concretise::*;
use crate::model::*;
use serde_json::{json, Value};
use stam::*;
use std::panic::{catch_unwind, AssertUnwindSafe};

pub struct Ctx {
    pub store: AnnotationStore,
    pub style: IdStyle,
    pub extra: Value,
    pub dir: Option<std::path::PathBuf>,
}

pub fn bi<'a, T: Storable>(r: &Ref, style: IdStyle) -> BuildItem<'a, T>
where
    T::HandleType: Handle,
{
    match r.by.as_str() {
        "id" => BuildItem::Id(style.conc(&r.id)),
        "h" => BuildItem::Handle(T::HandleType::new((r.h - 1).max(0) as usize)),
        "temp" => BuildItem::Id(format!("!{}{}", r.tl, r.tn)),
        _ => BuildItem::None,
    }
}

fn cursor(k: &str, v: i64) -> Cursor {
    if k == "B" {
        Cursor::BeginAligned(v.max(0) as usize)
    } else {
        Cursor::EndAligned(v as isize)
    }
}

pub fn offset_of(o: &Off) -> Offset {
    Offset::new(cursor(&o.bk, o.bv), cursor(&o.ek, o.ev))
}

pub fn selector_builder<'a>(tb: &TB, style: IdStyle) -> Option<SelectorBuilder<'a>> {
    Some(match tb.kind.as_str() {
        "Text" => SelectorBuilder::TextSelector(bi(&tb.a, style), offset_of(&tb.off)),
        "Res" => SelectorBuilder::ResourceSelector(bi(&tb.a, style)),
        "Ann" => SelectorBuilder::AnnotationSelector(bi(&tb.a, style), if tb.off.has { Some(offset_of(&tb.off)) } else { None }),
        "Set" => SelectorBuilder::DataSetSelector(bi(&tb.a, style)),
        "Key" => SelectorBuilder::DataKeySelector(bi(&tb.a, style), bi(&tb.b, style)),
        "Data" => SelectorBuilder::AnnotationDataSelector(bi(&tb.a, style), bi(&tb.b, style)),
        "Multi" => SelectorBuilder::MultiSelector(tb.subs.iter().filter_map(|s| selector_builder(s, style)).collect()),
        "Composite" => SelectorBuilder::CompositeSelector(tb.subs.iter().filter_map(|s| selector_builder(s, style)).collect()),
        "Directional" => SelectorBuilder::DirectionalSelector(tb.subs.iter().filter_map(|s| selector_builder(s, style)).collect()),
        _ => return None,
    })
}

pub fn data_builder<'a>(db: &DB, style: IdStyle) -> AnnotationDataBuilder<'a> {
    AnnotationDataBuilder::new()
        .with_dataset(bi(&db.set, style))
        .with_key(bi(&db.key, style))
        .with_id(bi(&db.id, style))
        .with_value(value_of(&db.val, style))
}

pub fn annotation_builder<'a>(a: &Value, style: IdStyle) -> AnnotationBuilder<'a> {
    let id = a["id"].as_str().unwrap_or("");
    let tb: TB = serde_json::from_value(a["target"].clone()).expect("harness: target builder");
    let dbs: Vec<DB> = serde_json::from_value(a["data"].clone()).expect("harness: data builders");
    let mut b = AnnotationBuilder::new();
    if !id.is_empty() {
        b = b.with_id(style.conc(id));
    }
    if let Some(sb) = selector_builder(&tb, style) {
        b = b.with_target(sb);
    }
    for db in dbs.iter() {
        b = b.with_data_builder(data_builder(db, style));
    }
    b
}

/// STAM JSON of a reference (identifier; handles become temporary identifiers); None = the field is left out
fn ref_json(r: &Ref, letter: char, style: IdStyle) -> Option<Value> {
    match r.by.as_str() {
        "id" => Some(json!(style.conc(&r.id))),
        "h" => Some(json!(format!("!{}{}", letter, (r.h - 1).max(0)))),
        "temp" => Some(json!(format!("!{}{}", r.tl, r.tn))),
        _ => None,
    }
}

fn put(obj: &mut Value, field: &str, v: Option<Value>) {
    if let Some(v) = v {
        obj[field] = v;
    }
}

fn offset_json(o: &Off) -> Value {
    let cur = |k: &str, v: i64| json!({"@type": if k == "B" { "BeginAlignedCursor" } else { "EndAlignedCursor" }, "value": v});
    json!({"@type": "Offset", "begin": cur(&o.bk, o.bv), "end": cur(&o.ek, o.ev)})
}

fn selector_json(tb: &TB, style: IdStyle) -> Value {
    let mut v = json!({});
    match tb.kind.as_str() {
        "Text" => {
            v["@type"] = json!("TextSelector");
            put(&mut v, "resource", ref_json(&tb.a, 'R', style));
            v["offset"] = offset_json(&tb.off);
        }
        "Res" => {
            v["@type"] = json!("ResourceSelector");
            put(&mut v, "resource", ref_json(&tb.a, 'R', style));
        }
        "Ann" => {
            v["@type"] = json!("AnnotationSelector");
            put(&mut v, "annotation", ref_json(&tb.a, 'A', style));
            if tb.off.has {
                v["offset"] = offset_json(&tb.off);
            }
        }
        "Set" => {
            v["@type"] = json!("DataSetSelector");
            put(&mut v, "annotationset", ref_json(&tb.a, 'S', style));
        }
        "Key" => {
            v["@type"] = json!("DataKeySelector");
            put(&mut v, "annotationset", ref_json(&tb.a, 'S', style));
            put(&mut v, "key", ref_json(&tb.b, 'K', style));
        }
        "Data" => {
            v["@type"] = json!("AnnotationDataSelector");
            put(&mut v, "annotationset", ref_json(&tb.a, 'S', style));
            put(&mut v, "data", ref_json(&tb.b, 'D', style));
        }
        kind => {
            v["@type"] = json!(format!("{}Selector", kind));
            v["selectors"] = Value::Array(tb.subs.iter().map(|s| selector_json(s, style)).collect());
        }
    }
    v
}

/// the STAM JSON form of an annotation builder (for annotate_from_file)
pub fn annotation_json(a: &Value, style: IdStyle) -> Value {
    let id = a["id"].as_str().unwrap_or("");
    let tb: TB = serde_json::from_value(a["target"].clone()).expect("harness: target builder");
    let dbs: Vec<DB> = serde_json::from_value(a["data"].clone()).expect("harness: data builders");
    let mut v = json!({"@type": "Annotation"});
    if !id.is_empty() {
        v["@id"] = json!(style.conc(id));
    }
    if tb.kind != "None" {
        v["target"] = selector_json(&tb, style);
    }
    let mut data = Vec::new();
    for db in dbs.iter() {
        let mut d = json!({"@type": "AnnotationData"});
        put(&mut d, "@id", ref_json(&db.id, 'D', style));
        put(&mut d, "set", ref_json(&db.set, 'S', style));
        put(&mut d, "key", ref_json(&db.key, 'K', style));
        d["value"] = serde_json::to_value(value_of(&db.val, style)).expect("harness: value json");
        data.push(d);
    }
    v["data"] = Value::Array(data);
    v
}

fn id_string(r: &Ref, style: IdStyle) -> Option<String> {
    match r.by.as_str() {
        "id" => Some(style.conc(&r.id)),
        "temp" => Some(format!("!{}{}", r.tl, r.tn)),
        _ => None,
    }
}

fn rf(v: &Value) -> Ref {
    serde_json::from_value(v.clone()).expect("harness: ref")
}

/// Returns (outcome, result handle 1-based or 0)
pub fn apply(ctx: &mut Ctx, op: &Op) -> (String, i64) {
    let style = ctx.style;
    let a = &op.a;
    if op.ev == "RoundTrip" {
        return crate::roundtrip::roundtrip(ctx, a);
    }
    if op.ev == "Reindex" {
        // reindex() consumes the store
        let old = std::mem::replace(&mut ctx.store, AnnotationStore::new(Config::default()));
        return match catch_unwind(AssertUnwindSafe(move || old.reindex())) {
            Ok(s) => {
                ctx.store = s;
                ("ok".into(), 0)
            }
            Err(_) => ("panic".into(), 0),
        };
    }
    let store = &mut ctx.store;
    // argument decoding happens outside catch_unwind: a malformed input is a harness error, not a verdict
    let prepared_annotation = if op.ev == "Annotate" { Some(annotation_builder(a, style)) } else { None };
    let mut prepared_annotation = prepared_annotation;
    let r = catch_unwind(AssertUnwindSafe(|| -> Result<i64, StamError> {
        match op.ev.as_str() {
            "AddResource" => {
                let text: Vec<i64> = serde_json::from_value(a["text"].clone()).unwrap();
                let mut b = TextResourceBuilder::new().with_text(text_of(&text));
                let id = a["id"].as_str().unwrap_or("");
                if !id.is_empty() {
                    b = b.with_id(style.conc(id));
                }
                store.add_resource(b).map(|h| h.as_usize() as i64 + 1)
            }
            "AddDataset" => {
                let mut b = AnnotationDataSetBuilder::new();
                let id = a["id"].as_str().unwrap_or("");
                if !id.is_empty() {
                    b = b.with_id(style.conc(id));
                }
                store.add_dataset(b).map(|h| h.as_usize() as i64 + 1)
            }
            "AddKey" => {
                let set: &mut AnnotationDataSet = store.get_mut(bi::<AnnotationDataSet>(&rf(&a["set"]), style))?;
                let id = a["id"].as_str().unwrap_or("");
                if id.is_empty() {
                    return Err(StamError::OtherError("harness: empty key id"));
                }
                set.insert(DataKey::new(style.conc(id))).map(|h| h.as_usize() as i64 + 1)
            }
            "InsertData" => {
                let db = DB { set: rf(&a["set"]), key: rf(&a["key"]), id: rf(&a["id"]), val: serde_json::from_value(a["val"].clone()).unwrap() };
                if a["safety"].as_bool().unwrap_or(true) {
                    store.insert_data(data_builder(&db, style)).map(|(_, d)| d.as_usize() as i64 + 1)
                } else {
                    let set: &mut AnnotationDataSet = store.get_mut(bi::<AnnotationDataSet>(&db.set, style))?;
                    set.insert_data(bi::<AnnotationData>(&db.id, style), bi::<DataKey>(&db.key, style), value_of(&db.val, style), false)
                        .map(|d| d.as_usize() as i64 + 1)
                }
            }
            "Annotate" => store.annotate(prepared_annotation.take().unwrap()).map(|h| h.as_usize() as i64 + 1),
            // identifiers (public and temporary) are passed as strings, the form a user of the API writes
            "RemoveAnnotation" => match id_string(&rf(&a["ann"]), style) {
                Some(id) => store.remove_annotation(id),
                None => store.remove_annotation(bi::<Annotation>(&rf(&a["ann"]), style)),
            }
            .map(|_| 0),
            "RemoveResource" => match id_string(&rf(&a["res"]), style) {
                Some(id) => store.remove_resource(id.as_str()),
                None => store.remove_resource(bi::<TextResource>(&rf(&a["res"]), style)),
            }
            .map(|_| 0),
            "RemoveDataset" => match id_string(&rf(&a["set"]), style) {
                Some(id) => store.remove_dataset(id),
                None => store.remove_dataset(bi::<AnnotationDataSet>(&rf(&a["set"]), style)),
            }
            .map(|_| 0),
            "RemoveData" => store
                .remove_data(
                    bi::<AnnotationDataSet>(&rf(&a["set"]), style),
                    bi::<AnnotationData>(&rf(&a["data"]), style),
                    a["strict"].as_bool().unwrap_or(true),
                )
                .map(|_| 0),
            "RemoveKey" => store
                .remove_key(
                    bi::<AnnotationDataSet>(&rf(&a["set"]), style),
                    bi::<DataKey>(&rf(&a["key"]), style),
                    a["strict"].as_bool().unwrap_or(true),
                )
                .map(|_| 0),
            "StripAnnotationIds" => {
                store.strip_annotation_ids();
                Ok(0)
            }
            "QueryAdd" => crate::query::query_add(store, a, style),
            "QueryDelete" => crate::query::query_delete(store, a, style),
            "AnnotateBatch" => {
                let items = a["items"].as_array().expect("harness: batch items");
                if a["via"] == "file" {
                    let dir = std::path::PathBuf::from(format!("/verif/work/batch_{}", std::process::id()));
                    std::fs::create_dir_all(&dir).expect("harness: batch dir");
                    let path = dir.join("batch.annotations.json");
                    let doc = Value::Array(items.iter().map(|x| annotation_json(x, style)).collect());
                    std::fs::write(&path, serde_json::to_string_pretty(&doc).unwrap()).expect("harness: batch file");
                    let r = store.annotate_from_file(path.to_str().unwrap()).map(|_| 0);
                    let _ = std::fs::remove_dir_all(&dir);
                    r
                } else {
                    let builders: Vec<AnnotationBuilder> = items.iter().map(|x| annotation_builder(x, style)).collect();
                    store.annotate_from_iter(builders).map(|_| 0)
                }
            }
            "Transpose" => {
                let tag = a["tag"].as_str().unwrap_or("");
                let builders = {
                    let src = store
                        .annotation(bi::<Annotation>(&rf(&a["src"]), style))
                        .ok_or(StamError::OtherError("harness: source annotation does not resolve"))?;
                    let via = store
                        .annotation(bi::<Annotation>(&rf(&a["via"]), style))
                        .ok_or(StamError::OtherError("harness: transposition does not resolve"))?;
                    let mut cfg = TransposeConfig::default();
                    cfg.transposition_id = Some(style.conc(&format!("tp{}", tag)));
                    cfg.resegmentation_id = Some(style.conc(&format!("rs{}", tag)));
                    cfg.target_side_ids = ["a", "b", "c"].iter().map(|x| style.conc(&format!("tt{}{}", tag, x))).collect();
                    src.transpose(&via, cfg)?
                };
                store.annotate_from_iter(builders)?;
                Ok(0)
            }
            "ProtectText" => {
                let mode = match a["mode"].as_str().unwrap_or("auto") {
                    "checksum" => TextValidationMode::Checksum,
                    "text" => TextValidationMode::Text,
                    "both" => TextValidationMode::Both,
                    _ => TextValidationMode::Auto,
                };
                store.protect_text(mode).map(|_| 0)
            }
            "ShrinkToFit" => {
                store.shrink_to_fit(true);
                Ok(0)
            }
            "StripDataIds" => {
                store.strip_data_ids();
                Ok(0)
            }
            other => panic!("harness: unknown event {}", other),
        }
    }));
    match r {
        Ok(Ok(h)) => ("ok".into(), h),
        Ok(Err(_)) => ("err".into(), 0),
        Err(_) => ("panic".into(), 0),
    }
}
