//! What the *public* API answers for every item (the observation side of C01/C02/C10).
//! Shapes mirror StamApi.tla; dead items get empty placeholders of the same shape.
use serde::Serialize;
use stam::*;

#[derive(Serialize, Default)]
pub struct ARes {
    pub anns: Vec<i64>,
    pub meta: Vec<i64>,
    pub tsel_anns: Vec<Vec<i64>>,
    pub tsel_len: Vec<i64>,
}

#[derive(Serialize, Default)]
pub struct AAnn {
    pub rev: Vec<i64>,
    pub revh: Vec<i64>,
    pub intargets: Vec<i64>,
    pub tsels: Vec<(i64, i64, i64)>,
    pub data: Vec<(i64, i64)>,
}

#[derive(Serialize, Default)]
pub struct AKey {
    pub data: Vec<i64>,
    pub anns: Vec<i64>,
    pub meta: Vec<i64>,
    pub count: i64,
}

#[derive(Serialize, Default)]
pub struct AData {
    pub anns: Vec<i64>,
    pub len: i64,
    pub meta: Vec<i64>,
}

#[derive(Serialize, Default)]
pub struct ASet {
    pub meta: Vec<i64>,
    pub keys: Vec<AKey>,
    pub data: Vec<AData>,
}

#[derive(Serialize, Default)]
pub struct Api {
    pub has: bool,
    pub res: Vec<ARes>,
    pub anns: Vec<AAnn>,
    pub sets: Vec<ASet>,
    pub totals: Vec<i64>,
    pub exercise: String,
}

fn hs<'a, I: Iterator<Item = ResultItem<'a, Annotation>>>(it: I) -> Vec<i64> {
    it.map(|a| a.handle().as_usize() as i64 + 1).collect()
}

/// Iterate over everything, run fixed queries and serialise: must not fail (C02).
fn exercise(store: &AnnotationStore) -> String {
    let mut n = 0usize;
    for a in store.annotations() {
        n += a.data().count();
        n += a.textselections().count();
        n += a.annotations_in_targets(AnnotationDepth::Max).count();
        n += a.text().count();
        n += a.resources().count() + a.datasets().count();
    }
    for r in store.resources() {
        n += r.annotations().count() + r.textselections().count();
    }
    for s in store.datasets() {
        n += s.keys().count() + s.data().count();
    }
    for q in ["SELECT ANNOTATION ?a", "SELECT DATA ?d", "SELECT TEXT ?t", "SELECT RESOURCE ?r"] {
        let parsed: Result<Query, _> = q.try_into();
        match parsed {
            Ok(query) => match store.query(query) {
                Ok(iter) => n += iter.count(),
                Err(_) => return "queryerr".into(),
            },
            Err(_) => return "parseerr".into(),
        }
    }
    // serialise with the store's own configuration (working directory of stand-off files), as JSON
    let cfg = store.config().clone().with_dataformat(DataFormat::Json { compact: false });
    if store.to_json_string(&cfg).is_err() {
        return "serialiseerr".into();
    }
    let _ = n;
    "ok".into()
}

pub fn observe(store: &AnnotationStore) -> Api {
    let mut api = Api { has: true, ..Default::default() };
    for i in 0..store.resources_len() {
        match store.resource(TextResourceHandle::new(i)) {
            None => api.res.push(ARes::default()),
            Some(r) => {
                let mut ar = ARes { anns: hs(r.annotations()), meta: hs(r.annotations_as_metadata()), ..Default::default() };
                for t in 0..r.as_ref().textselections_len() {
                    match r.textselection_by_handle(TextSelectionHandle::new(t)) {
                        Ok(ts) => {
                            ar.tsel_anns.push(hs(ts.annotations()));
                            ar.tsel_len.push(ts.annotations_len() as i64);
                        }
                        Err(_) => {
                            ar.tsel_anns.push(vec![-1]);
                            ar.tsel_len.push(-1);
                        }
                    }
                }
                api.res.push(ar);
            }
        }
    }
    for i in 0..store.annotations_len() {
        match store.annotation(AnnotationHandle::new(i)) {
            None => api.anns.push(AAnn::default()),
            Some(a) => {
                let mut intargets = hs(a.annotations_in_targets(AnnotationDepth::One));
                intargets.sort();
                intargets.dedup();
                api.anns.push(AAnn {
                    rev: hs(a.annotations()),
                    revh: a.annotations_handles().iter().map(|h| h.as_usize() as i64 + 1).collect(),
                    intargets,
                    tsels: a
                        .textselections()
                        .map(|t| (t.resource().handle().as_usize() as i64 + 1, t.begin() as i64, t.end() as i64))
                        .collect(),
                    data: a.data().map(|d| (d.set().handle().as_usize() as i64 + 1, d.handle().as_usize() as i64 + 1)).collect(),
                });
            }
        }
    }
    for i in 0..store.datasets_len() {
        match store.dataset(AnnotationDataSetHandle::new(i)) {
            None => api.sets.push(ASet::default()),
            Some(s) => {
                let mut aset = ASet { meta: hs(s.annotations()), ..Default::default() };
                for k in 0..s.as_ref().keys_len() {
                    match s.key(DataKeyHandle::new(k)) {
                        None => aset.keys.push(AKey::default()),
                        Some(key) => aset.keys.push(AKey {
                            data: key.data().map(|d| d.handle().as_usize() as i64 + 1).collect(),
                            anns: hs(key.annotations()),
                            meta: hs(key.annotations_as_metadata()),
                            count: key.annotations_count() as i64,
                        }),
                    }
                }
                for d in 0..s.as_ref().data_len() {
                    match s.annotationdata(AnnotationDataHandle::new(d)) {
                        None => aset.data.push(AData::default()),
                        Some(data) => aset.data.push(AData {
                            anns: hs(data.annotations()),
                            len: data.annotations_len() as i64,
                            meta: hs(data.annotations_as_metadata()),
                        }),
                    }
                }
                api.sets.push(aset);
            }
        }
    }
    let t = store.index_totalcount();
    api.totals = vec![t.0 as i64, t.1 as i64, t.2 as i64, t.3 as i64, t.4 as i64, t.5 as i64, t.6 as i64, t.7 as i64];
    api.exercise = exercise(store);
    api
}
