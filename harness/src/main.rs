//! stamverif: conformance harness binding the TLA+ specification in /verif/spec to stam-rust.
//! It only drives the implementation and records what happened; every verdict is TLC's.
mod apply;
mod concretise;
mod model;
mod observe;
mod load;
mod project;
mod query;
mod reads;
mod roundtrip;
mod sched;
mod webanno;

use apply::*;
use concretise::IdStyle;
use model::*;
use std::io::{BufRead, BufWriter, Write};
use std::panic::{catch_unwind, AssertUnwindSafe};

/// Performance-only settings come from the environment: the specification has no configuration variable,
/// so one specification must accept the traces of every configuration (C12).
pub fn store_config() -> (stam::Config, serde_json::Value) {
    let mut cfg = stam::Config::default();
    let ms: Option<usize> = std::env::var("VERIF_MILESTONE").ok().and_then(|s| s.parse().ok());
    if let Some(ms) = ms {
        cfg = cfg.with_milestone_interval(ms);
    }
    // VERIF_SHRINK unset: the library default (shrink_to_fit after loading); "1" / "0": forced on / off
    let shrink: Option<bool> = std::env::var("VERIF_SHRINK").ok().map(|s| s == "1");
    if let Some(shrink) = shrink {
        cfg = cfg.with_shrink_to_fit(shrink);
    }
    let shrink = cfg.shrink_to_fit();
    (cfg, serde_json::json!({"milestone": ms.map(|x| x as i64).unwrap_or(-1), "shrink": shrink}))
}

fn new_store() -> stam::AnnotationStore {
    stam::AnnotationStore::new(store_config().0)
}

fn reset_event(cfg: &serde_json::Value) -> Event {
    Event {
        ev: "Reset".into(),
        a: cfg.clone(),
        outcome: "ok".into(),
        res: 0,
        projok: true,
        api: serde_json::json!({"has": false}),
        x: serde_json::json!({"has": false}),
        ..Default::default()
    }
}

/// Replay behaviours (one JSON array of {ev,a} per input line) on fresh stores and log every step.
fn replay(input: &str, output: &str, style: IdStyle) -> std::io::Result<()> {
    let inp = std::io::BufReader::new(std::fs::File::open(input)?);
    let mut out = BufWriter::new(std::fs::File::create(output)?);
    let mut nb = 0usize;
    let mut nev = 0usize;
    for line in inp.lines() {
        let line = line?;
        let line = line.trim();
        if line.is_empty() {
            continue;
        }
        let ops: Vec<Op> = serde_json::from_str(line).expect("harness: behaviour line");
        project::reset_sha_table();
        let mut ctx = Ctx { store: new_store(), style, extra: serde_json::json!({"has": false}), dir: None };
        let mut rcfg = store_config().1;
        rcfg["style"] = serde_json::json!(style.0);
        serde_json::to_writer(&mut out, &reset_event(&rcfg))?;
        out.write_all(b"\n")?;
        nb += 1;
        let mut last_good: Option<(PState, Vec<PPos>)> = None;
        for op in ops.iter() {
            if reads::READ_EVENTS.contains(&op.ev.as_str()) {
                let (outcome, res, api) = reads::read(&ctx, op);
                let ev = Event { ev: op.ev.clone(), a: op.a.clone(), outcome, res, projok: true, api, x: serde_json::json!({"has": false}), ..Default::default() };
                serde_json::to_writer(&mut out, &ev)?;
                out.write_all(b"\n")?;
                nev += 1;
                continue;
            }
            ctx.extra = serde_json::json!({"has": false});
            let (outcome, res) = apply(&mut ctx, op);
            let proj = catch_unwind(AssertUnwindSafe(|| project::project(&ctx.store, style)));
            let (projok, post, pos) = match proj {
                Ok((p, q)) => {
                    last_good = Some((p.clone(), q.clone()));
                    (true, p, q)
                }
                Err(_) => {
                    let (p, q) = last_good.clone().unwrap_or_default();
                    (false, p, q)
                }
            };
            let api = if projok && outcome != "panic" {
                match catch_unwind(AssertUnwindSafe(|| observe::observe(&ctx.store))) {
                    Ok(api) => serde_json::to_value(&api).expect("api json"),
                    Err(_) => serde_json::to_value(&observe::Api { has: true, exercise: "panic".into(), ..Default::default() }).unwrap(),
                }
            } else {
                serde_json::json!({"has": false})
            };
            let ev = Event { ev: op.ev.clone(), a: op.a.clone(), outcome: outcome.clone(), res, projok, post, pos, api, x: ctx.extra.clone() };
            serde_json::to_writer(&mut out, &ev)?;
            out.write_all(b"\n")?;
            nev += 1;
            if outcome == "panic" || !projok {
                break; // the store may be inconsistent after a panic: end this behaviour
            }
        }
        if let Some(d) = ctx.dir.take() {
            if std::env::var("VERIF_KEEP_TMP").is_err() {
                let _ = std::fs::remove_dir_all(&d);
            }
        }
    }
    out.flush()?;
    eprintln!("replayed {} behaviours, {} events", nb, nev);
    Ok(())
}

fn main() {
    // panics in the code under test are data, not noise
    std::panic::set_hook(Box::new(|info| {
        if std::env::var("VERIF_SHOW_PANICS").is_ok() {
            eprintln!("panic: {}", info);
        }
    }));
    let args: Vec<String> = std::env::args().collect();
    let style = IdStyle(std::env::var("VERIF_IDSTYLE").ok().and_then(|s| s.parse().ok()).unwrap_or(0));
    let r = match args.get(1).map(|s| s.as_str()) {
        Some("replay") => replay(&args[2], &args[3], style),
        Some("load") => {
            // child process of a Load event: exit status carries the outcome
            let code = load::child_main(&args[2], &args[3], style);
            std::process::exit(code);
        }
        Some("conc") => {
            // stamverif conc '<json {shape, ops, schedule}>'
            let a: serde_json::Value = serde_json::from_str(&args[2]).expect("harness: conc args");
            let dir = std::path::PathBuf::from(format!("/verif/work/conc_{}", std::process::id()));
            std::fs::create_dir_all(&dir).unwrap();
            let sch: Vec<usize> = a["schedule"].as_array().unwrap().iter().map(|x| x.as_u64().unwrap() as usize).collect();
            let out = sched::run(&a["shape"], a["ops"].as_array().unwrap(), &sch, &dir);
            let _ = std::fs::remove_dir_all(&dir);
            println!("{}", out);
            Ok(())
        }
        _ => {
            eprintln!("usage: stamverif replay <behaviours.ndjson> <trace.ndjson>");
            std::process::exit(2);
        }
    };
    if let Err(e) = r {
        eprintln!("harness error: {}", e);
        std::process::exit(2);
    }
}
