//! stamverif: conformance harness binding the TLA+ specification in /verif/spec to stam-rust.
//! It only drives the implementation and records what happened; every verdict is TLC's.
mod apply;
mod concretise;
mod model;
mod observe;
mod load;
mod project;
mod query;
mod reads;
mod roundtrip;
mod sched;
mod webanno;

use apply::*;
use concretise::IdStyle;
use model::*;
use std::io::{BufRead, BufWriter, Write};
use std::panic::{catch_unwind, AssertUnwindSafe};

/// Performance-only settings come from the environment: the specification has no configuration variable,
/// so one specification must accept the traces of every configuration (C12).
pub fn store_config() -> (stam::Config, serde_json::Value) {
    let mut cfg = stam::Config::default();
    let ms: Option<usize> = std::env::var("VERIF_MILESTONE").ok().and_then(|s| s.parse().ok());
    if let Some(ms) = ms {
        cfg = cfg.with_milestone_interval(ms);
    }
    // VERIF_SHRINK unset: the library default (shrink_to_fit after loading); "1" / "0": forced on / off
    let shrink: Option<bool> = std::env::var("VERIF_SHRINK").ok().map(|s| s == "1");
    if let Some(shrink) = shrink {
        cfg = cfg.with_shrink_to_fit(shrink);
    }
    let shrink = cfg.shrink_to_fit();
    (cfg, serde_json::json!({"milestone": ms.map(|x| x as i64).unwrap_or(-1), "shrink": shrink}))
}

fn new_store() -> stam::AnnotationStore {
    stam::AnnotationStore::new(store_config().0)
}

fn reset_event(cfg: &serde_json::Value) -> Event {
    Event {
        ev: "Reset".into(),
        a: cfg.clone(),
        outcome: "ok".into(),
        res: 0,
        projok: true,
        api: serde_json::json!({"has": false}),
        x: serde_json::json!({"has": false}),
        ..Default::default()
    }
}

/// Run a child; it is killed when its output file has not grown for HANG_SECS (every event is flushed; the slowest
/// events, loads with their own 20 s limit, stay far below).
/// Returns (exit code or None if it was killed by a signal, whether it was killed for hanging).
fn run_child(exe: &std::path::Path, args: &[&str], progress_file: &str) -> std::io::Result<(Option<i32>, bool)> {
    const HANG_SECS: u64 = 60;
    let mut child = std::process::Command::new(exe).args(args).spawn()?;
    let mut last_size = 0u64;
    let mut last_change = std::time::Instant::now();
    loop {
        if let Some(st) = child.try_wait()? {
            return Ok((st.code(), false));
        }
        std::thread::sleep(std::time::Duration::from_millis(20));
        let size = std::fs::metadata(progress_file).map(|m| m.len()).unwrap_or(0);
        if size != last_size {
            last_size = size;
            last_change = std::time::Instant::now();
        } else if last_change.elapsed().as_secs() >= HANG_SECS {
            let _ = child.kill();
            let _ = child.wait();
            return Ok((None, true));
        }
    }
}

/// Replay behaviours in child processes, so that an abort of the code under test (stack overflow, abort()) is data
/// like a panic: the child that dies is restarted on the behaviour after the one that killed it, and the operation
/// that did not return is logged with outcome "abort".
fn replay(input: &str, output: &str, _style: IdStyle) -> std::io::Result<()> {
    let behaviours: Vec<String> = std::io::BufReader::new(std::fs::File::open(input)?)
        .lines()
        .collect::<Result<Vec<_>, _>>()?
        .into_iter()
        .filter(|l| !l.trim().is_empty())
        .collect();
    let mut out = std::fs::File::create(output)?;
    let exe = std::env::current_exe()?;
    let tmp = format!("{}.child", output);
    let mut start = 0usize;
    let mut aborts = 0usize;
    while start < behaviours.len() {
        let _ = std::fs::remove_file(&tmp);
        let (st, _) = run_child(&exe, &["replay-child", input, &tmp, &start.to_string(), "all"], &tmp)?;
        if st == Some(2) || st == Some(101) {
            return Err(std::io::Error::new(std::io::ErrorKind::Other, format!("harness child failed: {:?}", st)));
        }
        let text = std::fs::read_to_string(&tmp).unwrap_or_default();
        if st == Some(0) {
            out.write_all(text.as_bytes())?;
            break;
        }
        // the child died: keep the behaviours it completed, find the one it died in
        let lines: Vec<&str> = text.split_inclusive('\n').collect();
        let resets: Vec<usize> = lines.iter().enumerate().filter(|(_, l)| l.starts_with("{\"ev\":\"Reset\"")).map(|(i, _)| i).collect();
        let crashed = start + resets.len().saturating_sub(1); // index of the behaviour being replayed when the child died
        out.write_all(lines[..resets.last().copied().unwrap_or(0)].concat().as_bytes())?;
        // replay that behaviour alone, flushing after every event, to see which operation does not return
        let _ = std::fs::remove_file(&tmp);
        let (_, hung) = run_child(&exe, &["replay-child", input, &tmp, &crashed.to_string(), "one"], &tmp)?;
        let text = std::fs::read_to_string(&tmp).unwrap_or_default();
        let mut lines: Vec<String> = text.split_inclusive('\n').filter(|l| l.ends_with('\n')).map(|l| l.to_string()).collect();
        let done = lines.len().saturating_sub(1); // events of this behaviour that were completed (the first line is the Reset)
        let ops: Vec<Op> = serde_json::from_str(&behaviours[crashed]).expect("harness: behaviour line");
        if !lines.is_empty() && done < ops.len() {
            // the state is taken from the last event that carries one
            let ev = Event { ev: ops[done].ev.clone(), a: ops[done].a.clone(), outcome: if hung { "timeout".into() } else { "abort".into() }, res: 0, projok: false,
                             api: serde_json::json!({"has": false}), x: serde_json::json!({"has": false}), ..Default::default() };
            let mut ev = serde_json::to_value(&ev).unwrap();
            for l in lines.iter().rev() {
                if let Ok(prev) = serde_json::from_str::<serde_json::Value>(l) {
                    let name = prev["ev"].as_str().unwrap_or("");
                    if prev["projok"] == true && !reads::READ_EVENTS.contains(&name) && name != "Reset" {
                        ev["post"] = prev["post"].clone();
                        ev["pos"] = prev["pos"].clone();
                        break;
                    }
                }
            }
            lines.push(serde_json::to_string(&ev).unwrap() + "\n");
        }
        out.write_all(lines.concat().as_bytes())?;
        aborts += 1;
        start = crashed + 1;
    }
    let _ = std::fs::remove_file(&tmp);
    if aborts > 0 {
        eprintln!("{} behaviour(s) ended with an abort of the code under test", aborts);
    }
    Ok(())
}

/// Replay behaviours (one JSON array of {ev,a} per input line) on fresh stores and log every step.
fn replay_child(input: &str, output: &str, style: IdStyle, start: usize, one: bool) -> std::io::Result<()> {
    let inp = std::io::BufReader::new(std::fs::File::open(input)?);
    let mut out = BufWriter::new(std::fs::OpenOptions::new().append(true).create(true).open(output)?);
    let mut nb = 0usize;
    let mut nev = 0usize;
    let mut index = 0usize;
    for line in inp.lines() {
        let line = line?;
        let line = line.trim();
        if line.is_empty() {
            continue;
        }
        index += 1;
        if index <= start || (one && index > start + 1) {
            continue;
        }
        out.flush()?; // (a behaviour is on disk completely before the next one starts)
        let ops: Vec<Op> = serde_json::from_str(line).expect("harness: behaviour line");
        project::reset_sha_table();
        let mut ctx = Ctx { store: new_store(), style, extra: serde_json::json!({"has": false}), dir: None };
        let mut rcfg = store_config().1;
        rcfg["style"] = serde_json::json!(style.0);
        serde_json::to_writer(&mut out, &reset_event(&rcfg))?;
        out.write_all(b"\n")?;
        out.flush()?;
        nb += 1;
        let mut last_good: Option<(PState, Vec<PPos>)> = None;
        for op in ops.iter() {
            if reads::READ_EVENTS.contains(&op.ev.as_str()) {
                let (outcome, res, api) = reads::read(&ctx, op);
                let ev = Event { ev: op.ev.clone(), a: op.a.clone(), outcome, res, projok: true, api, x: serde_json::json!({"has": false}), ..Default::default() };
                serde_json::to_writer(&mut out, &ev)?;
                out.write_all(b"\n")?;
                out.flush()?;
                nev += 1;
                continue;
            }
            ctx.extra = serde_json::json!({"has": false});
            let (outcome, res) = apply(&mut ctx, op);
            let proj = catch_unwind(AssertUnwindSafe(|| project::project(&ctx.store, style)));
            let (projok, post, pos) = match proj {
                Ok((p, q)) => {
                    last_good = Some((p.clone(), q.clone()));
                    (true, p, q)
                }
                Err(_) => {
                    let (p, q) = last_good.clone().unwrap_or_default();
                    (false, p, q)
                }
            };
            let api = if projok && outcome != "panic" {
                match catch_unwind(AssertUnwindSafe(|| observe::observe(&ctx.store))) {
                    Ok(api) => serde_json::to_value(&api).expect("api json"),
                    Err(_) => serde_json::to_value(&observe::Api { has: true, exercise: "panic".into(), ..Default::default() }).unwrap(),
                }
            } else {
                serde_json::json!({"has": false})
            };
            let ev = Event { ev: op.ev.clone(), a: op.a.clone(), outcome: outcome.clone(), res, projok, post, pos, api, x: ctx.extra.clone() };
            serde_json::to_writer(&mut out, &ev)?;
            out.write_all(b"\n")?;
            out.flush()?;
            nev += 1;
            if outcome == "panic" || !projok {
                break; // the store may be inconsistent after a panic: end this behaviour
            }
        }
        if let Some(d) = ctx.dir.take() {
            if std::env::var("VERIF_KEEP_TMP").is_err() {
                let _ = std::fs::remove_dir_all(&d);
            }
        }
    }
    out.flush()?;
    eprintln!("replayed {} behaviours, {} events", nb, nev);
    Ok(())
}

fn main() {
    // panics in the code under test are data, not noise
    std::panic::set_hook(Box::new(|info| {
        if std::env::var("VERIF_SHOW_PANICS").is_ok() {
            eprintln!("panic: {}", info);
        }
    }));
    let args: Vec<String> = std::env::args().collect();
    let style = IdStyle(std::env::var("VERIF_IDSTYLE").ok().and_then(|s| s.parse().ok()).unwrap_or(0));
    let r = match args.get(1).map(|s| s.as_str()) {
        Some("replay") => replay(&args[2], &args[3], style),
        Some("replay-child") => replay_child(&args[2], &args[3], style, args[4].parse().expect("harness: start"), args[5] == "one"),
        Some("load") => {
            // child process of a Load event: exit status carries the outcome
            let code = load::child_main(&args[2], &args[3], style);
            std::process::exit(code);
        }
        Some("conc") => {
            // stamverif conc '<json {shape, ops, schedule}>'
            let a: serde_json::Value = serde_json::from_str(&args[2]).expect("harness: conc args");
            let dir = std::path::PathBuf::from(format!("/verif/work/conc_{}", std::process::id()));
            std::fs::create_dir_all(&dir).unwrap();
            let sch: Vec<usize> = a["schedule"].as_array().unwrap().iter().map(|x| x.as_u64().unwrap() as usize).collect();
            let out = sched::run(&a["shape"], a["ops"].as_array().unwrap(), &sch, &dir);
            let _ = std::fs::remove_dir_all(&dir);
            println!("{}", out);
            Ok(())
        }
        _ => {
            eprintln!("usage: stamverif replay <behaviours.ndjson> <trace.ndjson>");
            std::process::exit(2);
        }
    };
    if let Err(e) = r {
        eprintln!("harness error: {}", e);
        std::process::exit(2);
    }
}
