//! Abstract tokens <-> concrete material (DESIGN.md 1.2).
//! Abstract character = integer 10*k + w, w = UTF-8 byte width of the concrete character.
use crate::model::Val;
use stam::DataValue;

/// (code, char). Codes are 10*k + width.
pub const CHARS: &[(i64, char)] = &[
    (11, 'a'),
    (21, 'b'),
    (31, ' '),
    (41, 'A'),
    (51, 'c'),
    (61, 'B'),
    (71, '.'),
    (81, '\n'),
    (12, 'é'),
    (22, 'É'),
    (32, 'İ'), // lower-casing changes length (i + combining dot)
    (42, 'ß'),
    (13, '€'),
    (23, '中'),
    (33, '\u{2003}'), // em space (whitespace, 3 bytes)
    (14, '😀'),
    (24, '𝄞'),
    (91, 'i'),
    (52, '\u{307}'), // combining dot above: second codepoint of lower-cased U+0130
    (43, '\u{212A}'), // Kelvin sign: lower-casing shrinks it from 3 bytes to 1 ('k')
    (101, 'k'),
];

pub fn char_of(code: i64) -> char {
    for (c, ch) in CHARS {
        if *c == code {
            return *ch;
        }
    }
    panic!("harness: unknown abstract character {}", code)
}

pub fn code_of(ch: char) -> i64 {
    for (c, x) in CHARS {
        if *x == ch {
            return *c;
        }
    }
    // unknown characters map to a code no specification state contains
    -(ch as i64)
}

pub fn text_of(codes: &[i64]) -> String {
    codes.iter().map(|c| char_of(*c)).collect()
}

pub fn codes_of(text: &str) -> Vec<i64> {
    text.chars().map(code_of).collect()
}

/// Identifier concretisation style (chosen from the seed): a reversible decoration.
#[derive(Clone, Copy, Debug)]
pub struct IdStyle(pub u64);

const SUFFIXES: &[&str] = &["", " \"q\\é", "#ünï/{x}", "\t'€😀", ":a,b|c"];

/// the text-validation vocabulary has fixed concrete names
pub const TV_SET: &str = "https://w3id.org/stam/extensions/stam-textvalidation/";
pub const TP_SET: &str = "https://w3id.org/stam/extensions/stam-transpose/";
/// the W3C Web Annotation vocabulary (data in this set with certain keys is exported outside the body)
pub const WA_SET: &str = "http://www.w3.org/ns/anno/";
const RESERVED: &[&str] = &["checksum", "text", "delimiter", "Transposition", "Resegmentation", "1", "1.5", "-7", "yes", "created", "creator", "motivation"];

/// string values that look like IRIs (the Web Annotation export writes them as nodes) with characters that need escaping
const IRI_TOKENS: &[(&str, &str)] = &[
    ("iri1", "urn:x:a\\b"),
    ("iri2", "file:C:\\temp\\notes\\backup.txt"),
    ("iri3", "http://e.org/\u{1}x\r"),
    ("iri4", "https://example.org/plain"),
    // plain strings whose only special characters are the first / the last C0 control character
    ("ctl1", "a\u{1f}b"),
    ("ctl2", "\u{1}"),
];

impl IdStyle {
    fn suffix(&self) -> &'static str {
        SUFFIXES[(self.0 as usize) % SUFFIXES.len()]
    }
    pub fn conc(&self, abs: &str) -> String {
        if abs.is_empty() {
            String::new()
        } else if abs == "TV" {
            TV_SET.to_string()
        } else if abs == "TP" {
            TP_SET.to_string()
        } else if abs == "WA" {
            WA_SET.to_string()
        } else if RESERVED.contains(&abs) {
            abs.to_string()
        } else if let Some((_, c)) = IRI_TOKENS.iter().find(|(a, _)| *a == abs) {
            c.to_string()
        } else {
            format!("{}{}", abs, self.suffix())
        }
    }
    /// identifiers the library generates itself (random) are named after the handle of the item that carries them
    pub fn abs_at(&self, conc: &str, handle1: i64) -> String {
        if conc.ends_with("-transpositionsource") && conc.len() == 21 + "-transpositionsource".len() {
            format!("GEN@{}", handle1)
        } else {
            self.abs(conc)
        }
    }

    pub fn abs(&self, conc: &str) -> String {
        let suf = self.suffix();
        if conc.is_empty() {
            String::new()
        } else if conc == TV_SET {
            "TV".to_string()
        } else if conc == TP_SET {
            "TP".to_string()
        } else if conc == WA_SET {
            "WA".to_string()
        } else if RESERVED.contains(&conc) {
            conc.to_string()
        } else if let Some((a, _)) = IRI_TOKENS.iter().find(|(_, c)| *c == conc) {
            a.to_string()
        } else if suf.is_empty() {
            conc.to_string()
        } else if let Some(stripped) = conc.strip_suffix(suf) {
            stripped.to_string()
        } else {
            format!("?{}", conc)
        }
    }
}

/// abstract float n: n/2, except that |n| >= 1_000_000 stands for the whole number 10^(|n| - 1_000_000) (beyond the i64 range)
pub fn float_of(n: i64) -> f64 {
    if n.abs() >= 1_000_000 {
        let f = 10f64.powi((n.abs() - 1_000_000) as i32);
        if n < 0 { -f } else { f }
    } else {
        n as f64 / 2.0
    }
}

pub fn value_of(v: &Val, style: IdStyle) -> DataValue {
    match v.t.as_str() {
        "null" => DataValue::Null,
        "str" => DataValue::String(style.conc(&v.s)),
        "int" => DataValue::Int(v.n as isize),
        "float" => DataValue::Float(float_of(v.n)),
        "bool" => DataValue::Bool(v.n != 0),
        "list" => DataValue::List(v.l.iter().map(|x| value_of(x, style)).collect()),
        "datetime" => {
            let s = format!("2024-01-{:02}T10:{:02}:00+02:00", 1 + (v.n / 60) % 28, v.n % 60);
            DataValue::Datetime(stam::DateTime::parse_from_rfc3339(&s).expect("harness datetime"))
        }
        other => panic!("harness: unknown value type {}", other),
    }
}

pub fn val_of(v: &DataValue, style: IdStyle) -> Val {
    match v {
        DataValue::Null => Val::null(),
        DataValue::String(s) => Val { t: "str".into(), s: style.abs(s), n: 0, l: vec![] },
        DataValue::Int(n) => Val { t: "int".into(), s: String::new(), n: *n as i64, l: vec![] },
        DataValue::Float(f) if f.abs() >= 1e15 && f.is_finite() && 10f64.powi(f.abs().log10().round() as i32) == f.abs() => {
            let e = 1_000_000 + f.abs().log10().round() as i64;
            Val { t: "float".into(), s: String::new(), n: if *f < 0.0 { -e } else { e }, l: vec![] }
        }
        DataValue::Float(f) => {
            let n = (f * 2.0).round();
            if (n / 2.0 - f).abs() < 1e-9 {
                Val { t: "float".into(), s: String::new(), n: n as i64, l: vec![] }
            } else {
                Val { t: "float".into(), s: format!("?{}", f), n: 0, l: vec![] }
            }
        }
        DataValue::Bool(b) => Val { t: "bool".into(), s: String::new(), n: *b as i64, l: vec![] },
        DataValue::List(l) => Val { t: "list".into(), s: String::new(), n: 0, l: l.iter().map(|x| val_of(x, style)).collect() },
        DataValue::Datetime(d) => {
            use stam::DateTime;
            let _ = DateTime::parse_from_rfc3339;
            let s = d.to_rfc3339();
            // inverse of value_of: 2024-01-DDT10:MM:00+02:00
            let day: i64 = s[8..10].parse().unwrap_or(-1);
            let min: i64 = s[14..16].parse().unwrap_or(-1);
            if s.starts_with("2024-01-") && s.ends_with(":00+02:00") && &s[11..13] == "10" && day >= 1 {
                Val { t: "datetime".into(), s: String::new(), n: (day - 1) * 60 + min, l: vec![] }
            } else {
                Val { t: "datetime".into(), s: format!("?{}", s), n: 0, l: vec![] }
            }
        }
    }
}
