//! C19: load mutated serialisations in a child process (address-space limit, timeout) so that a panic, an abort, an
//! allocation failure or a hang of the code under test is an outcome, not a crash of the harness.
use crate::apply::Ctx;
use crate::model::*;
use serde_json::{json, Value};
use stam::*;
use std::io::Read;
use std::path::{Path, PathBuf};
use std::process::{Command, Stdio};
use std::time::{Duration, Instant};

fn empty_state() -> Value {
    serde_json::to_value(PState::default()).unwrap()
}

/// child side: `stamverif load <path> <out>`; exit 0 = loaded (projection written), 3 = load returned an error
pub fn child_main(path: &str, out: &str, style: crate::concretise::IdStyle) -> i32 {
    match AnnotationStore::from_file(path, crate::store_config().0) {
        Ok(store) => {
            // the loader returned a store; if it cannot even be walked (exit 4) it was accepted in a corrupt state
            match std::panic::catch_unwind(std::panic::AssertUnwindSafe(|| crate::project::project(&store, style))) {
                Ok((st, pos)) => {
                    std::fs::write(out, serde_json::to_string(&json!({"st": st, "pos": pos})).unwrap()).expect("harness: write projection");
                    0
                }
                Err(_) => 4,
            }
        }
        Err(_) => 3,
    }
}

fn scratch(ctx: &Ctx) -> PathBuf {
    let d = PathBuf::from(format!("/verif/work/load_{}_{}", std::process::id(), ctx.style.0));
    let _ = std::fs::remove_dir_all(&d);
    std::fs::create_dir_all(&d).expect("harness: scratch");
    d
}

fn ann_mut<'a>(doc: &'a mut Value, idx: usize) -> Option<&'a mut Value> {
    doc.get_mut("annotations")?.as_array_mut()?.get_mut(idx)
}

fn first_id(doc: &Value, coll: &str) -> String {
    doc[coll].as_array().and_then(|a| a.first()).and_then(|x| x["@id"].as_str()).unwrap_or("nope").to_string()
}

fn big(arg: i64) -> Value {
    // a menu of hostile numbers, by index
    match arg {
        0 => json!(0),
        1 => json!(7),
        2 => json!(99999999999u64),
        3 => json!(18446744073709551615u64),
        4 => json!(-1),
        5 => json!(1e30),
        6 => json!("x"),
        7 => json!(9223372036854775807i64),
        8 => json!(-9223372036854775808i64),
        9 => json!(-9223372036854775807i64),
        10 => json!(18446744073709551614u64),
        _ => json!(null),
    }
}

fn bigstr(arg: i64) -> String {
    match arg {
        0 => "0".into(),
        1 => "7".into(),
        2 => "99999999999".into(),
        3 => "18446744073709551616".into(),
        4 => "-1".into(),
        5 => "".into(),
        6 => "x".into(),
        8 => "18446744073709551615".into(),
        9 => "9223372036854775807".into(),
        _ => "007".into(),
    }
}

/// apply one structural mutation to a STAM JSON document; returns false if it does not apply to this document
fn mutate_json(doc: &mut Value, part: &str, idx: usize, op: &str, arg: i64) -> bool {
    let res0 = first_id(doc, "resources");
    let set0 = first_id(doc, "annotationsets");
    let first_ann = doc["annotations"].as_array().and_then(|a| a.first()).and_then(|x| x["@id"].as_str()).unwrap_or("nope").to_string();
    let key0 = doc["annotationsets"].as_array().and_then(|a| a.first()).and_then(|s| s["keys"].as_array()).and_then(|k| k.first())
        .and_then(|k| k["@id"].as_str()).unwrap_or("nope").to_string();
    let last_ann = doc["annotations"].as_array().and_then(|a| a.last()).and_then(|x| x["@id"].as_str()).unwrap_or("nope").to_string();
    match part {
        "ann" => {
            let n = doc["annotations"].as_array().map(|a| a.len()).unwrap_or(0);
            if idx >= n {
                return false;
            }
            match op {
                "dup" => {
                    let copy = doc["annotations"][idx].clone();
                    doc["annotations"].as_array_mut().unwrap().push(copy);
                    return true;
                }
                "swap_next" => {
                    if idx + 1 >= n {
                        return false;
                    }
                    doc["annotations"].as_array_mut().unwrap().swap(idx, idx + 1);
                    return true;
                }
                // every later annotation points at its predecessor: a chain of (relative) annotation selectors
                "chain_offset" => {
                    if idx + 1 >= n {
                        return false;
                    }
                    for j in idx..n {
                        if doc["annotations"][j]["@id"].as_str().is_none() {
                            doc["annotations"][j]["@id"] = json!(format!("chain{}", j));
                        }
                    }
                    for j in (idx + 1)..n {
                        let prev = doc["annotations"][j - 1]["@id"].clone();
                        let cur = |t: &str, v: i64| json!({"@type": t, "value": v});
                        let off = match arg {
                            0 => Some((cur("BeginAlignedCursor", 0), cur("BeginAlignedCursor", 1))),
                            1 => Some((cur("BeginAlignedCursor", 0), cur("EndAlignedCursor", 0))),
                            2 => Some((cur("EndAlignedCursor", -1), cur("EndAlignedCursor", 0))),
                            3 => if (j - idx) % 2 == 0 { Some((cur("BeginAlignedCursor", 0), cur("EndAlignedCursor", 0))) } else { None },
                            _ => None,
                        };
                        doc["annotations"][j]["target"] = match off {
                            Some((b, e)) => json!({"@type": "AnnotationSelector", "annotation": prev, "offset": {"@type": "Offset", "begin": b, "end": e}}),
                            None => json!({"@type": "AnnotationSelector", "annotation": prev}),
                        };
                    }
                    return true;
                }
                _ => {}
            }
            let own_id = doc["annotations"][idx]["@id"].as_str().unwrap_or("nope").to_string();
            let a = ann_mut(doc, idx).unwrap();
            match op {
                "del_target" => {
                    a.as_object_mut().unwrap().remove("target");
                }
                "del_id" => {
                    a.as_object_mut().unwrap().remove("@id");
                }
                "del_data" => {
                    a.as_object_mut().unwrap().remove("data");
                }
                "target_string" => a["target"] = json!("text"),
                "target_null" => a["target"] = Value::Null,
                "target_number" => a["target"] = json!(42),
                "target_array" => a["target"] = json!([]),
                "type_unknown" => a["target"]["@type"] = json!("FooSelector"),
                "type_text_no_offset" => a["target"] = json!({"@type": "TextSelector", "resource": res0}),
                "type_multi_empty" => a["target"] = json!({"@type": "MultiSelector", "selectors": []}),
                "type_multi_nested" => {
                    a["target"] = json!({"@type": "MultiSelector", "selectors": [{"@type": "CompositeSelector", "selectors": [{"@type": "ResourceSelector", "resource": res0}]}]})
                }
                "res_dangling" => a["target"] = json!({"@type": "ResourceSelector", "resource": "nope"}),
                "self_target" => a["target"] = json!({"@type": "AnnotationSelector", "annotation": own_id}),
                "forward_target" => a["target"] = json!({"@type": "AnnotationSelector", "annotation": last_ann}),
                "tempid" => a["@id"] = json!(format!("!A{}", bigstr(arg))),
                "tempid_target" => a["target"] = json!({"@type": "AnnotationSelector", "annotation": format!("!A{}", bigstr(arg))}),
                "offset" => {
                    a["target"] = json!({"@type": "TextSelector", "resource": res0,
                        "offset": {"@type": "Offset", "begin": {"@type": "BeginAlignedCursor", "value": big(arg)}, "end": {"@type": "EndAlignedCursor", "value": big(arg)}}})
                }
                // end-aligned begin, relative offsets on an annotation, hostile numbers in either cursor
                "offset_end" => {
                    a["target"] = json!({"@type": "TextSelector", "resource": res0,
                        "offset": {"@type": "Offset", "begin": {"@type": "EndAlignedCursor", "value": big(arg)}, "end": {"@type": "EndAlignedCursor", "value": 0}}})
                }
                "offset_rel" => {
                    a["target"] = json!({"@type": "AnnotationSelector", "annotation": first_ann,
                        "offset": {"@type": "Offset", "begin": {"@type": "BeginAlignedCursor", "value": big(arg)}, "end": {"@type": "BeginAlignedCursor", "value": big(arg)}}})
                }
                "offset_rel_end" => {
                    a["target"] = json!({"@type": "AnnotationSelector", "annotation": first_ann,
                        "offset": {"@type": "Offset", "begin": {"@type": "BeginAlignedCursor", "value": 0}, "end": {"@type": "EndAlignedCursor", "value": big(arg)}}})
                }
                // complex selectors over keys / data / datasets (valid references)
                "multi_keys" => {
                    a["target"] = json!({"@type": if arg == 0 { "MultiSelector" } else if arg == 1 { "CompositeSelector" } else { "DirectionalSelector" }, "selectors": [
                        {"@type": "DataKeySelector", "annotationset": set0, "key": key0}, {"@type": "DataKeySelector", "annotationset": set0, "key": key0}]})
                }
                "multi_mixed" => {
                    a["target"] = json!({"@type": "MultiSelector", "selectors": [
                        {"@type": "DataSetSelector", "annotationset": set0}, {"@type": "DataKeySelector", "annotationset": set0, "key": key0},
                        {"@type": "ResourceSelector", "resource": res0}, {"@type": "AnnotationSelector", "annotation": first_ann}]})
                }
                // a complete inline data item whose temporary identifier points at a gap / far beyond the data
                "data_tempid_full" => {
                    a["data"] = json!([{"@type": "AnnotationData", "@id": format!("!D{}", bigstr(arg)), "set": set0, "key": key0,
                                        "value": {"@type": "String", "value": "x"}}])
                }
                "offset_inverted" => {
                    a["target"] = json!({"@type": "TextSelector", "resource": res0,
                        "offset": {"@type": "Offset", "begin": {"@type": "BeginAlignedCursor", "value": 2}, "end": {"@type": "BeginAlignedCursor", "value": 1}}})
                }
                "cursor_type_unknown" => {
                    a["target"] = json!({"@type": "TextSelector", "resource": res0,
                        "offset": {"@type": "Offset", "begin": {"@type": "MiddleAlignedCursor", "value": 0}, "end": {"@type": "EndAlignedCursor", "value": 0}}})
                }
                "data_set_dangling" => a["data"] = json!([{"@type": "AnnotationData", "@id": "d1", "set": "nope"}]),
                "data_string" => a["data"] = json!("data"),
                "data_tempid" => a["data"] = json!([{"@type": "AnnotationData", "@id": format!("!D{}", bigstr(arg)), "set": set0}]),
                "data_incomplete" => a["data"] = json!([{"@type": "AnnotationData"}]),
                _ => panic!("harness: unknown annotation mutation {}", op),
            }
            true
        }
        "set" => {
            let n = doc["annotationsets"].as_array().map(|a| a.len()).unwrap_or(0);
            if idx >= n {
                return false;
            }
            let s = &mut doc["annotationsets"][idx];
            match op {
                "key_dup" => {
                    let k = s["keys"].as_array().and_then(|k| k.first().cloned());
                    match k {
                        Some(k) => s["keys"].as_array_mut().unwrap().push(k),
                        None => return false,
                    }
                }
                "key_null" => s["keys"] = json!([null]),
                "keys_string" => s["keys"] = json!("keys"),
                "del_keys" => {
                    s.as_object_mut().unwrap().remove("keys");
                }
                "data_key_dangling" => s["data"] = json!([{"@type": "AnnotationData", "@id": "dx", "key": "nope", "value": {"@type": "String", "value": "v"}}]),
                "data_tempid" => s["data"] = json!([{"@type": "AnnotationData", "@id": format!("!D{}", bigstr(arg)), "key": "k1", "value": {"@type": "String", "value": "v"}}]),
                "data_value_deep" => {
                    let mut v = json!({"@type": "Int", "value": 1});
                    for _ in 0..(50 * (arg + 1)) {
                        v = json!({"@type": "List", "value": [v]});
                    }
                    s["data"] = json!([{"@type": "AnnotationData", "@id": "dx", "key": "k1", "value": v}]);
                }
                "value_type_unknown" => s["data"] = json!([{"@type": "AnnotationData", "@id": "dx", "key": "k1", "value": {"@type": "Complex", "value": 1}}]),
                "dup" => {
                    let copy = s.clone();
                    doc["annotationsets"].as_array_mut().unwrap().push(copy);
                }
                "include_missing" => *s = json!({"@type": "AnnotationDataSet", "@id": "sx", "@include": "missing.annotationset.stam.json"}),
                // a stand-off dataset file that includes itself (written next to the store by load_event)
                "include_self" => *s = json!({"@type": "AnnotationDataSet", "@id": "sx", "@include": "self.annotationset.stam.json"}),
                // a second "data" member (placeholder name, renamed in the text by load_event) with a temporary identifier
                "second_data" => s["zzz_second_data"] = json!([{"@type": "AnnotationData", "@id": format!("!D{}", bigstr(arg)), "key": key0, "value": {"@type": "String", "value": "zz"}}]),
                _ => panic!("harness: unknown dataset mutation {}", op),
            }
            true
        }
        "res" => {
            let n = doc["resources"].as_array().map(|a| a.len()).unwrap_or(0);
            if idx >= n {
                return false;
            }
            let r = &mut doc["resources"][idx];
            match op {
                "del_text" => {
                    r.as_object_mut().unwrap().remove("text");
                }
                "text_number" => r["text"] = json!(5),
                "id_number" => r["@id"] = json!(5),
                "include_missing" => *r = json!({"@type": "TextResource", "@id": "rx", "@include": "missing.txt"}),
                "include_self" => *r = json!({"@type": "TextResource", "@id": "rx", "@include": "store.store.stam.json"}),
                "dup" => {
                    let copy = r.clone();
                    doc["resources"].as_array_mut().unwrap().push(copy);
                }
                _ => panic!("harness: unknown resource mutation {}", op),
            }
            true
        }
        "top" => {
            match op {
                "type_wrong" => doc["@type"] = json!("TextResource"),
                "annotations_object" => doc["annotations"] = json!({}),
                "resources_null" => doc["resources"] = Value::Null,
                "extra_field" => doc["unknown"] = json!([1, 2, 3]),
                "include_self" => doc["@include"] = json!("store.store.stam.json"),
                _ => panic!("harness: unknown top-level mutation {}", op),
            }
            true
        }
        _ => panic!("harness: unknown part {}", part),
    }
}

/// serde_json::Value sorts object keys; STAM JSON is read in one pass, so resources and datasets must precede the
/// annotations that refer to them (and "@type" conventionally comes first)
fn write_ordered(v: &Value, out: &mut String) {
    match v {
        Value::Object(m) => {
            let prio = |k: &str| match k {
                "@type" => 0,
                "@id" => 1,
                "@include" => 2,
                "resources" => 3,
                "annotationsets" => 4,
                "keys" => 5,
                "annotations" => 7,
                _ => 6,
            };
            let mut keys: Vec<&String> = m.keys().collect();
            keys.sort_by_key(|k| (prio(k), k.to_string()));
            out.push('{');
            for (i, k) in keys.iter().enumerate() {
                if i > 0 {
                    out.push(',');
                }
                out.push_str(&serde_json::to_string(k).unwrap());
                out.push(':');
                write_ordered(&m[*k], out);
            }
            out.push('}');
        }
        Value::Array(a) => {
            out.push('[');
            for (i, x) in a.iter().enumerate() {
                if i > 0 {
                    out.push(',');
                }
                write_ordered(x, out);
            }
            out.push(']');
        }
        other => out.push_str(&serde_json::to_string(other).unwrap()),
    }
}

fn xorshift(mut x: u64) -> u64 {
    x ^= x << 13;
    x ^= x >> 7;
    x ^= x << 17;
    x
}

fn run_child(path: &Path, out: &Path, style: u64, limit_s: u64) -> (String, Value) {
    let exe = std::env::current_exe().expect("harness: current exe");
    let mut child = Command::new("sh")
        .arg("-c")
        .arg("ulimit -v 4000000; exec \"$0\" load \"$1\" \"$2\"")
        .arg(&exe)
        .arg(path)
        .arg(out)
        .env("VERIF_IDSTYLE", style.to_string())
        .stdout(Stdio::null())
        .stderr(Stdio::piped())
        .spawn()
        .expect("harness: spawn loader");
    let t0 = Instant::now();
    let status = loop {
        match child.try_wait().expect("harness: wait") {
            Some(s) => break Some(s),
            None => {
                if t0.elapsed() > Duration::from_secs(limit_s) {
                    let _ = child.kill();
                    let _ = child.wait();
                    break None;
                }
                std::thread::sleep(Duration::from_millis(2));
            }
        }
    };
    let mut err = String::new();
    if let Some(mut e) = child.stderr.take() {
        let _ = e.read_to_string(&mut err);
    }
    match status {
        None => ("timeout".into(), empty_state()),
        Some(s) => match s.code() {
            Some(0) => match std::fs::read_to_string(out).ok().and_then(|t| serde_json::from_str::<Value>(&t).ok()) {
                Some(v) => ("ok".into(), v["st"].clone()),
                None => ("panic".into(), empty_state()),
            },
            Some(3) => ("err".into(), empty_state()),
            Some(4) => ("unobservable".into(), empty_state()),
            Some(101) => ("panic".into(), empty_state()),
            Some(_) => {
                if err.contains("memory allocation") || err.contains("capacity overflow") {
                    ("oom".into(), empty_state())
                } else {
                    ("abort".into(), empty_state())
                }
            }
            None => {
                // killed by a signal (SIGABRT after an allocation failure, SIGSEGV on stack overflow, ...)
                if err.contains("memory allocation") {
                    ("oom".into(), empty_state())
                } else {
                    ("abort".into(), empty_state())
                }
            }
        },
    }
}

/// Returns (outcome, api): api = {has, applied, loaded (projected state of the loaded store, or the empty state)}
pub fn load_event(ctx: &Ctx, a: &Value) -> (String, Value) {
    let format = a["format"].as_str().unwrap_or("json");
    let part = a["part"].as_str().unwrap_or("top");
    let idx = (a["idx"].as_i64().unwrap_or(1) - 1).max(0) as usize;
    let op = a["op"].as_str().unwrap_or("");
    let arg = a["arg"].as_i64().unwrap_or(0);
    let dir = scratch(ctx);
    let jsoncfg = ctx.store.config().clone().with_dataformat(DataFormat::Json { compact: false });
    let text = ctx.store.to_json_string(&jsoncfg).expect("harness: serialise current store");
    let path: PathBuf;
    let mut applied = true;
    match format {
        "json" => {
            path = dir.join("store.store.stam.json");
            let bytes: Vec<u8> = match op {
                "truncate" => {
                    let b = text.as_bytes();
                    b[..(b.len() * arg as usize / 10).min(b.len())].to_vec()
                }
                "empty" => Vec::new(),
                "not_json" => b"{\"@type\": \"AnnotationStore\", ]".to_vec(),
                "none" => text.clone().into_bytes(),
                // a second "annotations" member (the streaming reader accepts repeated members) with a temporary identifier
                "second_annotations" => {
                    let t = text.trim_end();
                    let cut = t.rfind('}').unwrap_or(t.len());
                    let extra = format!(",\n\"annotations\": [{{\"@type\": \"Annotation\", \"@id\": \"!A{}\", \"target\": {{\"@type\": \"ResourceSelector\", \"resource\": \"{}\"}}}}]\n}}",
                                        bigstr(arg), serde_json::from_str::<Value>(&text).ok().map(|d| first_id(&d, "resources")).unwrap_or_default().replace('\\', "\\\\").replace('"', "\\\""));
                    format!("{}{}", &t[..cut], extra).into_bytes()
                }
                "deep_nesting" => {
                    let mut s = String::new();
                    for _ in 0..100000 {
                        s.push('[');
                    }
                    s.into_bytes()
                }
                _ => {
                    let mut doc: Value = serde_json::from_str(&text).expect("harness: own json");
                    applied = mutate_json(&mut doc, part, idx, op, arg);
                    let mut text = String::new();
                    write_ordered(&doc, &mut text);
                    if op == "include_self" && part == "set" {
                        std::fs::write(dir.join("self.annotationset.stam.json"),
                                       "{\"@type\": \"AnnotationDataSet\", \"@id\": \"sx\", \"@include\": \"self.annotationset.stam.json\"}").expect("harness: write");
                    }
                    text.replace("\"zzz_second_data\"", "\"data\"").into_bytes()
                }
            };
            std::fs::write(&path, bytes).expect("harness: write");
        }
        "cbor" | "csv" => {
            // a private copy of the store that can be given a file name
            let mut copy = AnnotationStore::from_str(&text, crate::store_config().0).expect("harness: reload own json");
            let name = if format == "cbor" { "store.store.stam.cbor" } else { "store.store.stam.csv" };
            path = dir.join(name);
            copy.set_filename(path.to_str().unwrap());
            if copy.save().is_err() {
                applied = false;
            }
            // mutate one of the written files
            let target: PathBuf = if format == "cbor" {
                path.clone()
            } else {
                match part {
                    "annotations" => dir.join("store.annotations.stam.csv"),
                    "manifest" => path.clone(),
                    _ => std::fs::read_dir(&dir)
                        .unwrap()
                        .filter_map(|e| e.ok().map(|e| e.path()))
                        .find(|p| p.to_string_lossy().contains("annotationset"))
                        .unwrap_or(path.clone()),
                }
            };
            let mut bytes = std::fs::read(&target).unwrap_or_default();
            match op {
                "truncate" => bytes.truncate(bytes.len() * arg as usize / 10),
                "bitflip" => {
                    if !bytes.is_empty() {
                        let r = xorshift(0x9E3779B97F4A7C15u64.wrapping_mul(arg as u64 + 1 + ctx.style.0));
                        let pos = (r % bytes.len() as u64) as usize;
                        bytes[pos] ^= 1 << ((r >> 32) % 8);
                    }
                }
                "byte_ff" => {
                    if !bytes.is_empty() {
                        let pos = (xorshift(arg as u64 + 77) % bytes.len() as u64) as usize;
                        bytes[pos] = 0xff;
                    }
                }
                "empty" => bytes.clear(),
                "none" => {}
                "replace" => {
                    // textual replacement in a CSV file: arg selects (from, to)
                    let (from, to): (&str, &str) = match arg {
                        0 => ("TextSelector", "FooSelector"),
                        1 => ("TextSelector", "DataKeySelector"),
                        2 => ("TextSelector", "MultiSelector"),
                        3 => (",0,", ",x,"),
                        4 => (",0,", ",99999999999999999999,"),
                        5 => ("!A0", "!A99999999999"),
                        6 => ("!D0", "!D99999999999"),
                        7 => ("ResourceSelector", "AnnotationSelector"),
                        8 => ("Id,", "Ident,"),
                        // hostile cursor values and selector mixes in the offset / selector columns
                        10 => (",0,", ",-9223372036854775808,"),
                        11 => (",1,", ",18446744073709551615,"),
                        12 => (",0,", ",-0,"),
                        13 => (",1,", ",-9223372036854775808,"),
                        14 => ("TextSelector", "TextSelector;TextSelector"),
                        15 => ("AnnotationSelector", "AnnotationSelector;DataKeySelector"),
                        16 => ("ResourceSelector", "DirectionalSelector"),
                        17 => (";", ";;"),
                        _ => ("\n", "\n\n,,,\n"),
                    };
                    let s = String::from_utf8_lossy(&bytes).replacen(from, to, 1);
                    bytes = s.into_bytes();
                }
                "trimcol" | "growcol" => {
                    // column `arg` of every data row loses its last ';'-separated part / gains an empty one
                    let text = String::from_utf8_lossy(&bytes).to_string();
                    let mut out: Vec<String> = Vec::new();
                    for (n, line) in text.lines().enumerate() {
                        let mut cells: Vec<String> = line.split(',').map(|c| c.to_string()).collect();
                        // (only rows of complex selectors: simple rows would already be rejected for an empty cell)
                        if n > 0 && (arg as usize) < cells.len() && cells[arg as usize].contains(';') {
                            let c = &cells[arg as usize];
                            cells[arg as usize] = if op == "trimcol" {
                                match c.rfind(';') {
                                    Some(p) => c[..p].to_string(),
                                    None => String::new(),
                                }
                            } else {
                                format!("{};", c)
                            };
                        }
                        out.push(cells.join(","));
                    }
                    bytes = (out.join("\n") + "\n").into_bytes();
                }
                "dropcols" => {
                    // the last `arg` columns disappear from the header and from every row (TargetData, TargetKey, EndOffset, ...)
                    let text = String::from_utf8_lossy(&bytes).to_string();
                    let mut out: Vec<String> = Vec::new();
                    for line in text.lines() {
                        let cells: Vec<&str> = line.split(',').collect();
                        let keep = cells.len().saturating_sub(arg as usize);
                        out.push(cells[..keep].join(","));
                    }
                    bytes = (out.join("\n") + "\n").into_bytes();
                }
                "delete_file" => {
                    let _ = std::fs::remove_file(&target);
                    bytes.clear();
                }
                _ => panic!("harness: unknown {} mutation {}", format, op),
            }
            if op != "delete_file" {
                std::fs::write(&target, bytes).expect("harness: write");
            }
        }
        other => panic!("harness: unknown format {}", other),
    }
    let out = dir.join("loaded.json");
    let (outcome, loaded) = if applied { run_child(&path, &out, ctx.style.0, 20) } else { ("err".into(), empty_state()) };
    let _ = std::fs::remove_dir_all(&dir);
    // "unobservable": a store was returned (outcome ok) whose projection panics
    let observable = outcome != "unobservable";
    let outcome = if observable { outcome } else { "ok".to_string() };
    (outcome, json!({"has": true, "applied": applied, "loaded": loaded, "observable": observable}))
}
