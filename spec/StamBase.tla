----------------------------- MODULE StamBase -----------------------------
(* Generic helpers shared by all STAM specification modules.               *)
(* State values use only records, sequences, strings, integers, booleans   *)
(* (exactly what ND-JSON gives back), so maps are sorted association       *)
(* sequences.                                                               *)
EXTENDS Naturals, Integers, Sequences, FiniteSets, TLC

Range(s) == {s[i] : i \in DOMAIN s}

Max2(a, b) == IF a >= b THEN a ELSE b
Min2(a, b) == IF a <= b THEN a ELSE b

RECURSIVE SumSeq(_)
SumSeq(s) == IF s = <<>> THEN 0 ELSE Head(s) + SumSeq(Tail(s))

\* sequence of the elements of s satisfying Test, order kept
FilterSeq(s, Test(_)) == SelectSeq(s, Test)

\* indices i in 1..n (ascending, as a sequence) for which Test(i) holds
IdxSeq(n, Test(_)) == SelectSeq([i \in 1..n |-> i], Test)

\* ascending sequence of a finite set of integers
RECURSIVE SortedInts(_)
SortedInts(S) ==
    IF S = {} THEN <<>>
    ELSE LET m == CHOOSE x \in S : \A y \in S : x <= y
         IN <<m>> \o SortedInts(S \ {m})

\* map over a sequence
MapSeq(s, F(_)) == [i \in DOMAIN s |-> F(s[i])]

\* concatenation of a sequence of sequences
RECURSIVE Flatten(_)
Flatten(ss) == IF ss = <<>> THEN <<>> ELSE Head(ss) \o Flatten(Tail(ss))

\* left fold
FoldL(F(_, _), acc, s) ==
    LET f[i \in 0..Len(s)] == IF i = 0 THEN acc ELSE F(f[i - 1], s[i]) IN f[Len(s)]

Contains(s, x) == \E i \in DOMAIN s : s[i] = x

\* first index of x in s, 0 if absent
IndexOf(s, x) == IF Contains(s, x) THEN CHOOSE i \in DOMAIN s : s[i] = x /\ \A j \in 1..(i-1) : s[j] # x ELSE 0

\* s without every element that is in set R
Without(s, R) == SelectSeq(s, LAMBDA x : x \notin R)

\* remove duplicates, keeping first occurrences
RECURSIVE DedupFrom(_, _)
DedupFrom(s, seen) ==
    IF s = <<>> THEN <<>>
    ELSE IF Head(s) \in seen THEN DedupFrom(Tail(s), seen)
         ELSE <<Head(s)>> \o DedupFrom(Tail(s), seen \cup {Head(s)})
Dedup(s) == DedupFrom(s, {})

NoDup(s) == \A i, j \in DOMAIN s : i # j => s[i] # s[j]
Ascending(s) == \A i, j \in DOMAIN s : i < j => s[i] < s[j]

----------------------------------------------------------------------------
(* Association sequences: entries <<a, b, row>> sorted by (a, b); an entry *)
(* with an empty row is never kept (not observable in the code either).    *)

KeyLess(a1, b1, a2, b2) == a1 < a2 \/ (a1 = a2 /\ b1 < b2)

AGet(m, a, b) ==
    IF \E i \in DOMAIN m : m[i][1] = a /\ m[i][2] = b
    THEN m[CHOOSE i \in DOMAIN m : m[i][1] = a /\ m[i][2] = b][3]
    ELSE <<>>

\* set row (a,b) to `row` (dropping the entry when row is empty)
APut(m, a, b, row) ==
    LET before == SelectSeq(m, LAMBDA e : KeyLess(e[1], e[2], a, b))
        after  == SelectSeq(m, LAMBDA e : KeyLess(a, b, e[1], e[2]))
    IN IF row = <<>> THEN before \o after ELSE before \o << <<a, b, row>> >> \o after

\* append x to row (a,b) unless it is already the last element (an annotation is listed once per row
\* even when it reaches the same item along two paths; rows are built in ascending handle order)
AAppend(m, a, b, x) ==
    LET row == AGet(m, a, b)
    IN IF row # <<>> /\ row[Len(row)] = x THEN m ELSE APut(m, a, b, Append(row, x))

\* remove every member of set R from every row
APurge(m, R) ==
    LET cleaned == [i \in DOMAIN m |-> <<m[i][1], m[i][2], Without(m[i][3], R)>>]
    IN SelectSeq(cleaned, LAMBDA e : e[3] # <<>>)

\* drop the rows whose first key is a
ADropA(m, a) == SelectSeq(m, LAMBDA e : e[1] # a)
\* drop the rows whose first key is in set A
ADropAs(m, A) == SelectSeq(m, LAMBDA e : e[1] \notin A)
ADropAB(m, a, b) == SelectSeq(m, LAMBDA e : ~(e[1] = a /\ e[2] = b))

ASorted(m) == \A i, j \in DOMAIN m : i < j => KeyLess(m[i][1], m[i][2], m[j][1], m[j][2])
ANoEmpty(m) == \A i \in DOMAIN m : m[i][3] # <<>>

\* build from a set of triples <<a,b,x>> where x are integers: rows ascending in x
AFromTriples(T) ==
    LET keys == {<<t[1], t[2]>> : t \in T}
        RECURSIVE Build(_)
        Build(K) ==
            IF K = {} THEN <<>>
            ELSE LET k == CHOOSE x \in K : \A y \in K : x = y \/ KeyLess(x[1], x[2], y[1], y[2])
                 IN << <<k[1], k[2], SortedInts({t[3] : t \in {u \in T : u[1] = k[1] /\ u[2] = k[2]}})>> >>
                    \o Build(K \ {k})
    IN Build(keys)

----------------------------------------------------------------------------
(* Id maps: sequences of <<id, handle>> sorted by id is impossible to      *)
(* express without string order in TLC, so id maps are compared as sets.   *)
IdGet(m, id) == IF \E i \in DOMAIN m : m[i][1] = id
                THEN m[CHOOSE i \in DOMAIN m : m[i][1] = id][2] ELSE 0
IdPut(m, id, h) == IF id = "" THEN m ELSE Append(SelectSeq(m, LAMBDA e : e[1] # id), <<id, h>>)
IdDrop(m, id) == SelectSeq(m, LAMBDA e : e[1] # id)
IdDropHandles(m, H) == SelectSeq(m, LAMBDA e : e[2] \notin H)
=============================================================================
