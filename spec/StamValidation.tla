--------------------------- MODULE StamValidation ---------------------------
(* Text validation (C18): protect_text adds, per annotation that selects    *)
(* text, the text itself and/or its checksum as annotation data in the      *)
(* validation dataset; validate_text compares them with the text the        *)
(* annotation selects now.  The checksum is modelled as an injective         *)
(* function of the text (value token [t |-> "sha1", l |-> codes]); the       *)
(* harness maps a stored hex digest back to the text whose SHA-1 it is,      *)
(* computing SHA-1 itself.                                                   *)
EXTENDS StamStore

TVSetId == "TV"          \* abstract id of https://w3id.org/stam/extensions/stam-textvalidation/

CodesVal(tag, codes) == [t |-> tag, s |-> "", n |-> 0, l |-> [i \in DOMAIN codes |-> [t |-> "int", s |-> "", n |-> codes[i], l |-> <<>>]]]
ChecksumVal(codes) == CodesVal("sha1", codes)
TextVal(codes) == CodesVal("text", codes)

\* the text an annotation selects: its selections' texts joined (no delimiter), in the order textselections() yields them
AnnTextJoin(st, x) ==
    LET tx == AnnText(st, x)
    IN Flatten([i \in DOMAIN tx |-> SubSeq(st.res[tx[i][1]].text, tx[i][2] + 1, tx[i][3])])
AnnTextLen(st, x) == LET tx == AnnText(st, x) IN SumSeq([i \in DOMAIN tx |-> tx[i][3] - tx[i][2]])

TVSet(st) == IdLookup(st.idm.set, TVSetId)

\* the values of x's validation data with key `keyid` (a sequence, in data order)
ValData(st, x, keyid) ==
    LET s == TVSet(st)
    IN IF s = 0 THEN <<>>
       ELSE LET k == IdLookup(st.sets[s].kidm, keyid)
                ds == SelectSeq(st.anns[x].data, LAMBDA p : p[1] = s /\ st.sets[s].data[p[2]].key = k)
            IN IF k = 0 THEN <<>> ELSE [i \in DOMAIN ds |-> st.sets[s].data[ds[i][2]].val]

\* modes: "checksum" | "text" | "both" | "auto"
WantChecksum(st, x, mode) == mode \in {"checksum", "both"} \/ (mode = "auto" /\ AnnTextLen(st, x) >= 40)
WantText(st, x, mode) == mode \in {"text", "both"} \/ (mode = "auto" /\ AnnTextLen(st, x) < 40)

\* add one validation data item to annotation x (the data vocabulary is shared: equal values give one item)
AddValData(st, x, keyid, val) ==
    LET s == TVSet(st)
        r == SetInsertData(st.sets[s], NoRef, ById(keyid), val, TRUE)
    IN [st EXCEPT !.sets[s] = r.set,
                  !.anns[x].data = Append(@, <<s, r.d>>),
                  !.ix.dda = AAppend(@, s, r.d, x)]

\* args: [mode]
ProtectText(st, a) ==
    LET s0 == TVSet(st)
        st0 == IF s0 # 0 THEN st
               ELSE [st EXCEPT !.sets = Append(@, NewSet(TVSetId)), !.idm.set = IdAdd(@, TVSetId, Len(st.sets) + 1)]
        xs == SortedInts(LiveAnns(st))
        \* the queues are computed on the state before anything is added
        cq == SelectSeq(xs, LAMBDA x : WantChecksum(st, x, a.mode) /\ ValData(st, x, "checksum") = <<>> /\ AnnTextJoin(st, x) # <<>>)
        tq == SelectSeq(xs, LAMBDA x : WantText(st, x, a.mode) /\ ValData(st, x, "text") = <<>> /\ AnnTextJoin(st, x) # <<>>)
        st1 == FoldL(LAMBDA acc, x : AddValData(acc, x, "checksum", ChecksumVal(AnnTextJoin(st, x))), st0, cq)
        st2 == FoldL(LAMBDA acc, x : AddValData(acc, x, "text", TextVal(AnnTextJoin(st, x))), st1, tq)
    IN [outcome |-> "ok", st |-> st2, res |-> 0]

\* verdict per annotation: "valid" | "invalid" | "missing"
Verdict(st, x) ==
    LET cs == ValData(st, x, "checksum")
        ts == ValData(st, x, "text")
        now == AnnTextJoin(st, x)
    IN IF cs = <<>> /\ ts = <<>> THEN "missing"
       ELSE IF (cs # <<>> /\ cs[1] # ChecksumVal(now)) \/ (ts # <<>> /\ ts[1] # TextVal(now)) THEN "invalid"
       ELSE "valid"

\* answer of a Validate event: [ok, valid, invalid, missing, verdicts (per slot, "" for removed annotations)]
ValidateExpected(st) ==
    LET v == [x \in DOMAIN st.anns |-> IF st.anns[x].alive THEN Verdict(st, x) ELSE ""]
        count(w) == Cardinality({x \in DOMAIN st.anns : v[x] = w})
    IN [ok |-> TRUE, valid |-> count("valid"), invalid |-> count("invalid"), missing |-> count("missing"), verdicts |-> v]

\* the properties of C18 in terms of the specification (checked on the bounded model)
\* after protecting in any mode, every annotation that selects text is valid and none is invalid
ProtectedOK(st) ==
    \A x \in LiveAnns(st) : (AnnTextJoin(st, x) # <<>>) => Verdict(st, x) = "valid"

----------------------------------------------------------------------------
(* Editing a resource's text outside the store (the stand-off text file changes between save and load).    *)
(* edit = [has, res (rank of the resource among live resources), kind "sub" | "ins" | "del", pos, c]       *)
NoEdit == [has |-> FALSE, res |-> 0, kind |-> "", pos |-> 0, c |-> 0]

EditedText(t, e) ==
    CASE e.kind = "sub" -> [i \in DOMAIN t |-> IF i = e.pos + 1 THEN e.c ELSE t[i]]
      [] e.kind = "ins" -> SubSeq(t, 1, e.pos) \o <<e.c>> \o SubSeq(t, e.pos + 1, Len(t))
      [] e.kind = "del" -> SubSeq(t, 1, e.pos) \o SubSeq(t, e.pos + 2, Len(t))
      [] OTHER -> t

LiveResByRank(st, k) ==
    LET hs == SelectSeq([i \in DOMAIN st.res |-> i], LAMBDA i : st.res[i].alive)
    IN IF k \in DOMAIN hs THEN hs[k] ELSE 0

\* When the store is loaded against the edited text, end-aligned cursors are resolved against the NEW length: a text
\* leaf with mode 1 (begin..end-aligned) keeps its begin and moves its end by the change in length d, mode 2 moves both,
\* mode 3 moves its begin.  MovedRange is the range such a leaf selects after the reload.
MovedRange(rg, m, d) == CASE m = 1 -> <<rg[1], rg[2] + d>> [] m = 2 -> <<rg[1] + d, rg[2] + d>> [] m = 3 -> <<rg[1] + d, rg[2]>> [] OTHER -> rg

\* the edit is inside the specified domain when it applies, every selection still fits in the new text (so that loading
\* succeeds) and - for edits that change the length - the resource has no annotation-relative selections whose parent
\* is addressed with an end-aligned cursor (those move twice over; not specified here)
EditInDomain(st, e) ==
    ~e.has \/
    LET r == LiveResByRank(st, e.res)
    IN /\ r # 0
       /\ (e.kind \in {"sub", "del"} => e.pos < Len(st.res[r].text))
       /\ (e.kind = "ins" => e.pos <= Len(st.res[r].text))
       /\ LET n == Len(EditedText(st.res[r].text, e))
              d == n - Len(st.res[r].text)
          IN /\ \A i \in DOMAIN st.res[r].tsel : st.res[r].tsel[i][2] <= n
             /\ \A x \in LiveAnns(st) : \A i \in DOMAIN st.anns[x].leaves :
                   LET lf == st.anns[x].leaves[i]
                   IN (IsTextLeaf(lf) /\ LeafRes(lf) = r /\ lf.m # 0 /\ d # 0) =>
                        /\ lf.k = "Text"
                        /\ LET mr == MovedRange(LeafRange(st, lf), lf.m, d) IN 0 <= mr[1] /\ mr[1] <= mr[2] /\ mr[2] <= n
                        \* (nothing may be addressed relative to an annotation that moves)
                        /\ \A y \in LiveAnns(st) : \A j \in DOMAIN st.anns[y].leaves : ~(st.anns[y].leaves[j].k = "AnnText" /\ st.anns[y].leaves[j].a = x)

\* the state the reloaded store must be view-equal to: the text edited, and every end-aligned text leaf of that resource
\* pointing at (a new entry for) the range it resolves to against the new length
RECURSIVE MoveLeaves(_, _, _, _)
MoveLeaves(st, r, d, todo) ==
    IF todo = <<>> THEN st
    ELSE LET x == Head(todo)[1]
             i == Head(todo)[2]
             lf == st.anns[x].leaves[i]
             mr == MovedRange(LeafRange(st, lf), lf.m, d)
             st1 == [st EXCEPT !.res[r].tsel = Append(@, mr), !.anns[x].leaves[i].b = Len(st.res[r].tsel) + 1]
         IN MoveLeaves(st1, r, d, Tail(todo))
ApplyEdit(st, e) ==
    IF ~e.has THEN st
    ELSE LET r == LiveResByRank(st, e.res)
             d == Len(EditedText(st.res[r].text, e)) - Len(st.res[r].text)
             st0 == [st EXCEPT !.res[r].text = EditedText(@, e)]
             codes == SortedInts({p[1] * 100 + p[2] : p \in {q \in UNION {{<<x, i>> : i \in DOMAIN st.anns[x].leaves} : x \in LiveAnns(st)} :
                                  LET lf == st.anns[q[1]].leaves[q[2]] IN lf.k = "Text" /\ lf.a = r /\ lf.m # 0}})
             moved == [k \in DOMAIN codes |-> <<codes[k] \div 100, codes[k] % 100>>]
         IN IF d = 0 THEN st0 ELSE MoveLeaves(st0, r, d, moved)

----------------------------------------------------------------------------
(* dispatcher over all mutating events (store + validation)                *)
ApplyV(st, ev, a) == IF ev = "ProtectText" THEN ProtectText(st, a) ELSE Apply(st, ev, a)
MutatingEventsV == MutatingEvents \cup {"ProtectText"}
=============================================================================
