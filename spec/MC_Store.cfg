SPECIFICATION Spec
CONSTANTS
  MaxRes = 1
  MaxSets = 1
  MaxAnns = 3
  MaxData = 2
  MaxKeys = 2
  Depth = 100
  Scenario = "all"
  Size = "s"
  Prelude = 0
  Reads = {}
  DevShift = FALSE
  EmitAll = FALSE
  P1 = 0
  P2 = 0
CONSTRAINT Bounded
VIEW View
INVARIANT InvIndexExact
INVARIANT InvIndexChrono
INVARIANT InvKeyData
INVARIANT InvNoDangling
INVARIANT InvIdMap
INVARIANT InvTsel
INVARIANT InvTombs
PROPERTY Monotone
CHECK_DEADLOCK FALSE
