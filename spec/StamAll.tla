------------------------------- MODULE StamAll -------------------------------
(* Dispatcher over every mutating event of the specification (store,        *)
(* text validation, transposition); used by the bounded model, the          *)
(* generators and trace validation.                                         *)
EXTENDS StamValidation, StamTranspose

ApplyAny(st, ev, a) ==
    CASE ev = "ProtectText" -> ProtectText(st, a)
      [] ev = "Transpose"   -> Transpose(st, a)
      [] OTHER              -> Apply(st, ev, a)

MutatingEventsAll == MutatingEvents \cup {"ProtectText", "Transpose"}

InDomainAny(st, ev, a) ==
    IF ev = "Transpose" THEN TransposeInDomain(st, a) ELSE InDomain(st, ev, a)
=============================================================================
