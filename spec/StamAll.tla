------------------------------- MODULE StamAll -------------------------------
(* Dispatcher over every mutating event of the specification (store,        *)
(* text validation, transposition); used by the bounded model, the          *)
(* generators and trace validation.                                         *)
EXTENDS StamValidation, StamTranspose, StamQuery, SequencesExt

\* (Design-level definition. Conformance is checked at the level of the property - a RoundTrip event with format
\*  "reindex": identifiers, items and references as seen through View are preserved and the compacted store satisfies
\*  every store invariant - because the library keeps trailing vacated slots, i.e. the handle layout is not specified.)
\* C03, compaction: live resources, datasets and annotations are renumbered by rank (keys, data and text selections keep
\* their handles); every reference follows its item, public identifiers stay with their item
Reindex(st) ==
    LET LA == LiveAnns(st)
        LR == LiveRes(st)
        LS == LiveSets(st)
        mA(x) == Cardinality({y \in LA : y <= x})
        mR(x) == Cardinality({y \in LR : y <= x})
        mS(x) == Cardinality({y \in LS : y <= x})
        leaf(l) == CASE l.k \in {"Text", "Res"} -> [l EXCEPT !.a = mR(l.a)]
                     [] l.k = "Ann" -> [l EXCEPT !.a = mA(l.a)]
                     [] l.k = "AnnText" -> [l EXCEPT !.a = mA(l.a), !.c = mR(l.c)]
                     [] OTHER -> [l EXCEPT !.a = mS(l.a)]
        ann(x) == [st.anns[x] EXCEPT !.leaves = [i \in DOMAIN @ |-> leaf(@[i])],
                                     !.data = [i \in DOMAIN @ |-> <<mS(@[i][1]), @[i][2]>>]]
        sa == SortedInts(LA)
        sr == SortedInts(LR)
        ss == SortedInts(LS)
        st1 == [st EXCEPT !.res = [i \in DOMAIN sr |-> st.res[sr[i]]],
                          !.sets = [i \in DOMAIN ss |-> st.sets[ss[i]]],
                          !.anns = [i \in DOMAIN sa |-> ann(sa[i])],
                          !.idm.res = {<<e[1], mR(e[2])>> : e \in st.idm.res},
                          !.idm.set = {<<e[1], mS(e[2])>> : e \in st.idm.set},
                          !.idm.ann = {<<e[1], mA(e[2])>> : e \in st.idm.ann}]
    IN Ok([st1 EXCEPT !.ix = DerivedIx(st1)], 0)

\* C14 for batches (annotate_from_iter, annotate_from_file): the annotations are added one after the other; if any of
\* them is rejected the call returns the error and - the property - the store is as it was before the call
AnnotateBatch(st, a) ==
    LET r == AnnotateAll(st, a.items) IN IF r.outcome = "ok" THEN r ELSE Err(st)

\* C14 "by query": ADD ANNOTATION WITH [ID i;] [DATA set key value;]* TARGET ?y; { sub-query binding ?y }
\* one annotation per result row of the sub-query (in result order), added as a batch.  a = [id, data, sub]
ItemKey(it) == <<it.a, it.b, it.c>>
QueryAddBuilders(st, a) ==
    LET e == EvalQ(st, <<>>, a.sub)
        rows == SortSeq(SetToSeq(e.rows), LAMBDA x, y : TupleLess(ItemKey(x[1]), ItemKey(y[1])))
        tb(kind, r, off) == [kind |-> kind, a |-> r, b |-> NoRef, off |-> off, subs |-> <<>>]
        target(it) == CASE it.t = "ann" -> tb("Ann", ByH(it.a), NoOffset)
                        [] it.t = "text" -> tb("Text", ByH(it.a), Off("B", it.b, "B", it.c))
                        [] OTHER -> tb("Res", ByH(it.a), NoOffset)
    IN [ok |-> e.ok, items |-> [i \in DOMAIN rows |-> [id |-> a.id, target |-> target(rows[i][1]), data |-> a.data]]]
QueryAdd(st, a) ==
    \* (a sub-query that cannot be evaluated adds nothing; whether the call then reports an error is not C14's business)
    LET b == QueryAddBuilders(st, a) IN IF ~b.ok THEN [outcome |-> "either", st |-> st, res |-> 0] ELSE AnnotateBatch(st, [items |-> b.items])

\* C02 "by query": DELETE <TYPE> ?x { sub-query binding ?x }: every result of the sub-query is removed (strictly), in
\* result order; an item that an earlier removal of the same query has already taken along is simply gone.  a = [sub]
RECURSIVE DeleteAll(_, _)
DeleteAll(st, items) ==
    IF items = <<>> THEN Ok(st, 0)
    ELSE LET it == Head(items)
             r == CASE it.t = "ann" -> IF AnnAlive(st, it.a) THEN RemoveAnnotation(st, [ann |-> ByH(it.a)]) ELSE Ok(st, 0)
                    [] it.t = "res" -> IF ResAlive(st, it.a) THEN RemoveResource(st, [res |-> ByH(it.a)]) ELSE Ok(st, 0)
                    [] it.t = "set" -> IF SetAlive(st, it.a) THEN RemoveDataset(st, [set |-> ByH(it.a)]) ELSE Ok(st, 0)
                    [] it.t = "data" -> IF SetAlive(st, it.a) /\ DataAlive(st.sets[it.a], it.b)
                                        THEN RemoveData(st, [set |-> ByH(it.a), data |-> ByH(it.b), strict |-> TRUE]) ELSE Ok(st, 0)
                    [] OTHER -> IF SetAlive(st, it.a) /\ KeyAlive(st.sets[it.a], it.b)
                                THEN RemoveKey(st, [set |-> ByH(it.a), key |-> ByH(it.b), strict |-> TRUE]) ELSE Ok(st, 0)
         IN IF r.outcome # "ok" THEN Err(st) ELSE DeleteAll(r.st, Tail(items))
QueryDelete(st, a) ==
    LET e == EvalQ(st, <<>>, a.sub)
        rows == SortSeq(SetToSeq(e.rows), LAMBDA x, y : TupleLess(ItemKey(x[1]), ItemKey(y[1])))
    IN IF ~e.ok THEN [outcome |-> "either", st |-> st, res |-> 0] ELSE DeleteAll(st, [i \in DOMAIN rows |-> rows[i][1]])

ApplyAny(st, ev, a) ==
    CASE ev = "ProtectText" -> ProtectText(st, a)
      [] ev = "AnnotateBatch" -> AnnotateBatch(st, a)
      [] ev = "Reindex"     -> Reindex(st)
      [] ev = "QueryAdd"    -> QueryAdd(st, a)
      [] ev = "QueryDelete" -> QueryDelete(st, a)
      [] ev = "Transpose"   -> Transpose(st, a)
      [] OTHER              -> Apply(st, ev, a)

MutatingEventsAll == MutatingEvents \cup {"ProtectText", "Transpose", "AnnotateBatch", "Reindex", "QueryAdd", "QueryDelete"}

\* (a batch is in the domain if each item is, on the state it meets when the earlier items have been added)
RECURSIVE BatchInDomain(_, _)
BatchInDomain(st, items) ==
    IF items = <<>> THEN TRUE
    ELSE InDomain(st, "Annotate", Head(items)) /\
         LET r == Annotate(st, Head(items)) IN IF r.outcome # "ok" THEN TRUE ELSE BatchInDomain(r.st, Tail(items))
InDomainAny(st, ev, a) ==
    IF ev = "Transpose" THEN TransposeInDomain(st, a)
    ELSE IF ev = "AnnotateBatch" THEN BatchInDomain(st, a.items)
    ELSE IF ev = "QueryAdd" THEN (~QueryAddBuilders(st, a).ok \/ BatchInDomain(st, QueryAddBuilders(st, a).items))
    ELSE InDomain(st, ev, a)
=============================================================================
