-------------------------------- MODULE Trace --------------------------------
(* Trace validation: every event recorded from the real AnnotationStore    *)
(* must be a step the specification allows, with the logged state equal to *)
(* the state the specification computes (DESIGN.md 1.4).                    *)
(* The harness logs, per call: event, arguments, outcome (ok/err/panic),   *)
(* result handle, the projected post-state, the position index and what    *)
(* the public API answers.  No expected value is computed outside TLC.     *)
EXTENDS StamApi, StamRead, StamSerial, StamAll, StamWebAnno, StamQuery, StamConcurrency, Json, IOUtils, SequencesExt

Rec == ndJsonDeserialize(IOEnv.TRACE)

VARIABLES l,      \* next record to consume
          st,     \* specification state
          skip,   \* TRUE: rest of this trace is unexamined (until the next Reset)
          bad     \* number of rejected events so far

tvars == <<l, st, skip, bad>>

----------------------------------------------------------------------------
(* logged JSON -> specification state (id maps become sets, leaves of       *)
(* Multi/Composite selectors are put in canonical order)                   *)

PairSet(s) == {<<s[i][1], s[i][2]>> : i \in DOMAIN s}

CanonSet(s) == [s EXCEPT !.kidm = PairSet(s.kidm), !.didm = PairSet(s.didm)]

LeafShapeOK(p, lf) ==
    CASE lf.k = "Text"    -> lf.a \in 1..Len(p.res) /\ lf.b \in 1..Len(p.res[lf.a].tsel)
      [] lf.k = "AnnText" -> lf.c \in 1..Len(p.res) /\ lf.b \in 1..Len(p.res[lf.c].tsel)
      [] OTHER -> TRUE

CanonAnn(p, a) ==
    IF a.kind \in {"Multi", "Composite"} /\ \A i \in DOMAIN a.leaves : LeafShapeOK(p, a.leaves[i])
    THEN [a EXCEPT !.leaves = CanonLeaves(p, a.kind, a.leaves)]
    ELSE a

CanonState(p) ==
    [res  |-> p.res,
     sets |-> [i \in DOMAIN p.sets |-> CanonSet(p.sets[i])],
     anns |-> [i \in DOMAIN p.anns |-> CanonAnn(p, p.anns[i])],
     idm  |-> [res |-> PairSet(p.idm.res), set |-> PairSet(p.idm.set), ann |-> PairSet(p.idm.ann)],
     ix   |-> p.ix]

\* C01 (textual order promise): the text leaves of a Multi/Composite target, as stored, are in textual order
TextualOrderOK(p) ==
    \A x \in DOMAIN p.anns :
        LET a == p.anns[x]
        IN (a.alive /\ a.kind \in {"Multi", "Composite"} /\ \A i \in DOMAIN a.leaves : LeafShapeOK(p, a.leaves[i])) =>
             LET tl == SelectSeq(a.leaves, IsTextLeaf)
                 key(lf) == <<LeafRes(lf), LeafRange(p, lf)[1], LeafRange(p, lf)[2]>>
             IN \A i, j \in DOMAIN tl : i < j => ~TupleLess(key(tl[j]), key(tl[i]))

\* C01 / C12: the position index holds exactly the begins/ends of the known selections (plus
\* configuration-dependent milestones, which carry no selections) and every entry has the right byte offset
PosOK(s, pos) ==
    /\ Len(pos) = Len(s.res)
    /\ \A r \in DOMAIN s.res :
         IF ~s.res[r].alive THEN pos[r] = <<>>
         ELSE LET nonempty == SelectSeq(pos[r], LAMBDA e : e[3] # <<>> \/ e[4] # <<>>)
              IN /\ [i \in DOMAIN nonempty |-> <<nonempty[i][1], nonempty[i][3], nonempty[i][4]>>] = PosIndex(s.res[r].tsel)
                 /\ \A i \in DOMAIN pos[r] :
                      /\ pos[r][i][1] \in 0..Len(s.res[r].text)
                      /\ pos[r][i][2] = ByteOf(s.res[r].text, pos[r][i][1])

----------------------------------------------------------------------------
Resync(r, logged) ==
    IF r.projok /\ r.outcome # "panic" /\ NoDangling(logged) /\ StateOK(logged)
    THEN st' = logged /\ skip' = FALSE
    ELSE st' = st /\ skip' = TRUE

Mutating(r) ==
    LET exp    == ApplyAny(st, r.ev, r.a)
        logged == CanonState(r.post)
        okOutcome == IF exp.outcome = "either" THEN r.outcome \in {"ok", "err"} ELSE r.outcome = exp.outcome
        okState == r.projok /\ logged = exp.st
        okRes   == (exp.outcome = "ok" /\ exp.res # 0) => r.res = exp.res
        okOrder == ~r.projok \/ TextualOrderOK(r.post)
        okPos   == ~okState \/ PosOK(exp.st, r.pos)
        okApi   == ~okState \/ ~r.api.has \/ ApiOK(exp.st, r.api)
    IN IF ~InDomainAny(st, r.ev, r.a)
       THEN /\ Resync(r, logged) /\ UNCHANGED bad
            /\ PrintT(<<"OUTOFDOMAIN", l>>)
       ELSE IF okOutcome /\ okState /\ okRes /\ okOrder /\ okPos /\ okApi
       THEN st' = exp.st /\ UNCHANGED <<skip, bad>>
       ELSE /\ bad' = bad + 1
            /\ PrintT(<<"MISMATCH", l, ToJson([outcome |-> exp.outcome, res |-> exp.res, st |-> exp.st,
                                              why |-> IF r.ev = "Annotate" /\ exp.outcome = "err" THEN AnnotateWhy(st, r.a) ELSE "",
                                              ok |-> [outcome |-> okOutcome, state |-> okState, res |-> okRes,
                                                      order |-> okOrder, pos |-> okPos, api |-> okApi],
                                              api |-> IF okState /\ r.api.has THEN ApiExpected(exp.st, r.api) ELSE <<>>])>>)
            /\ Resync(r, logged)

\* C05 / C11 / C15: the store was written and read back; the history continues on the reloaded store
SafeStateOK(logged) == NoDangling(logged) /\ StateOK(logged)
RoundTrip(r) ==
    LET logged == CanonState(r.post)
        fmt == r.a.format
        okOutcome == r.outcome = "ok" /\ r.projok
        okInv   == okOutcome /\ SafeStateOK(logged)
        \* C18: the text file of a resource may have been edited between writing and reading
        target  == ApplyEdit(st, r.a.edit)
        okView  == okInv /\ RoundTripOK(target, logged, fmt)
        \* C05 only: writing the reloaded store again gives identical output (C11 and C15 do not promise that)
        okAgain == ~okOutcome \/ fmt # "json" \/ r.x.d1 = r.x.d2
        okPos   == ~okView \/ PosOK(logged, r.pos)
        okApi   == ~okView \/ ~r.api.has \/ ApiOK(logged, r.api)
    IN IF ~EditInDomain(st, r.a.edit)
       THEN \* e.g. a deletion after which a selection no longer fits: loading may fail or succeed, nothing is claimed
            /\ UNCHANGED bad /\ PrintT(<<"OUTOFDOMAIN", l>>)
            /\ IF okOutcome THEN Resync(r, logged) ELSE st' = st /\ skip' = TRUE
       ELSE IF okOutcome /\ okInv /\ okView /\ okAgain /\ okPos /\ okApi
       THEN st' = logged /\ UNCHANGED <<skip, bad>>
       ELSE /\ bad' = bad + 1
            /\ PrintT(<<"MISMATCH", l, ToJson([roundtrip |-> TRUE, outcome |-> "ok",
                                              ok |-> [outcome |-> okOutcome, inv |-> okInv, view |-> okView, again |-> okAgain,
                                                      pos |-> okPos, api |-> okApi],
                                              \* which of the store invariants the loaded state violates
                                              invs |-> IF okOutcome /\ ~okInv
                                                       THEN [index |-> IndexExact(logged) /\ IndexChronological(logged), keydata |-> KeyDataExact(logged),
                                                             dangling |-> NoDangling(logged), idmap |-> IdMapExact(logged),
                                                             other |-> TselWF(logged) /\ TombsCanonical(logged)]
                                                       ELSE [index |-> TRUE, keydata |-> TRUE, dangling |-> TRUE, idmap |-> TRUE, other |-> TRUE],
                                              view |-> View(target, fmt),
                                              got |-> IF okInv THEN View(logged, fmt) ELSE [res |-> <<>>, sets |-> <<>>, anns |-> <<>>],
                                              st |-> IF fmt = "cbor" THEN st ELSE InitState,
                                              api |-> IF okView /\ r.api.has THEN ApiExpected(logged, r.api) ELSE <<>>])>>)
            /\ IF okOutcome THEN Resync(r, logged) ELSE st' = st /\ skip' = FALSE

ReadOnly(r) ==
    LET v == IF r.ev = "Lookup" THEN ReadOK(st, r)
             ELSE IF r.ev = "FindData"
                  THEN [ok |-> FindDataOK(st, r), expected |-> [finddata |-> TRUE, items |-> SetToSeq(FindDataExpected(st, r.a))]]
             ELSE IF r.ev = "Load"
                  THEN \* C19: a store that satisfies the store invariants, or an error: never a panic, abort, allocation failure or hang
                       LET okOut == r.outcome \in {"ok", "err"}
                           okInv == r.outcome # "ok" \/ (r.api.observable /\ SafeStateOK(CanonState(r.api.loaded)))
                       IN [ok |-> okOut /\ okInv, expected |-> [load |-> TRUE, outcome |-> okOut, invariants |-> okInv]]
             ELSE IF r.ev = "ConcRun"
                  THEN [ok |-> ConcConforms(r) /\ ConcSequential(r),
                        expected |-> [conforms |-> ConcConforms(r), sequential |-> ConcSequential(r), threads |-> ConcExpected(r.a),
                                      alone |-> [t \in DOMAIN r.a.ops |-> Alone(r.a.shape, r.a.ops[t]).forms],
                                      seqfiles |-> FilesExpected(r.a.shape, RunSequential(r.a.shape, r.a.ops))]]
             ELSE IF r.ev = "ConcFree"
                  THEN [ok |-> FreeConforms(r) /\ FreeSequential(r),
                        expected |-> [conforms |-> FreeConforms(r), sequential |-> FreeSequential(r), threads |-> <<>>,
                                      alone |-> [t \in DOMAIN r.a.ops |-> Alone(r.a.shape, r.a.ops[t]).forms],
                                      seqfiles |-> FilesExpected(r.a.shape, RunSequential(r.a.shape, r.a.ops))]]
             ELSE IF r.ev = "Query"
                  THEN [ok |-> QueryOK(st, r),
                        expected |-> LET e == EvalQ(st, <<>>, r.a.q)
                                     IN [ok |-> e.ok, rows |-> SetToSeq(e.rows),
                                         \* (what kind of target every annotation has: part of a finding's fingerprint)
                                         kinds |-> [x \in DOMAIN st.anns |-> IF st.anns[x].alive THEN st.anns[x].leaves[1].k ELSE ""]]]
             ELSE IF r.ev = "Parse"
                  THEN [ok |-> ParseOK(r), expected |-> [parse |-> TRUE]]
             ELSE IF r.ev = "WebAnno"
                  THEN LET exp == WebAnnoExpected(st, r.a) IN [ok |-> r.outcome = "ok" /\ WebAnnoMatches(exp, r.api), expected |-> exp]
             ELSE IF r.ev = "Validate"
                  THEN LET exp == ValidateExpected(st) IN [ok |-> r.outcome = "ok" /\ r.api = exp, expected |-> exp]
             ELSE IF r.ev \in ReadEvents
                  THEN LET exp == ReadExpected(st, r.ev, r.a)
                       IN [ok |-> r.outcome = "ok" /\ ReadMatches(st, r.ev, r.a, exp, r.api), expected |-> exp]
                  ELSE [ok |-> FALSE, expected |-> [unknown |-> r.ev]]
    IN IF v.ok THEN UNCHANGED <<st, skip, bad>>
       ELSE /\ bad' = bad + 1 /\ UNCHANGED <<st, skip>>
            /\ PrintT(<<"MISMATCH", l, ToJson([readonly |-> TRUE, expected |-> v.expected])>>)

Step ==
    /\ l <= Len(Rec)
    /\ l' = l + 1
    /\ LET r == Rec[l]
       IN IF r.ev = "Reset" THEN st' = InitState /\ skip' = FALSE /\ UNCHANGED bad
          ELSE IF skip THEN UNCHANGED <<st, skip, bad>> /\ PrintT(<<"SKIPPED", l>>)
          ELSE IF r.ev \in RoundTripEvents THEN RoundTrip(r)
          ELSE IF r.ev \in MutatingEventsAll THEN Mutating(r)
          ELSE ReadOnly(r)

TraceInit == l = 1 /\ st = InitState /\ skip = FALSE /\ bad = 0
TraceSpec == TraceInit /\ [][Step]_tvars

\* every record was consumed (one state per record plus the initial state)
TraceAccepted ==
    LET d == TLCGet("stats").diameter
    IN IF d - 1 = Len(Rec) THEN PrintT(<<"CONSUMED", Len(Rec)>>)
       ELSE PrintT(<<"NOTCONSUMED", d - 1, Len(Rec)>>) /\ FALSE
=============================================================================
