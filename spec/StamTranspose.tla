--------------------------- MODULE StamTranspose ---------------------------
(* Transposition (C16).  A transposition is an annotation whose target is a *)
(* DirectionalSelector over sides: either annotations (each side a sequence *)
(* of text fragments: complex transposition) or text selections (each side  *)
(* one fragment: simple transposition).  Sides link piecewise identical     *)
(* text.  Transpose(src, via) cuts the source text at the fragment          *)
(* boundaries of the side it lies in and maps every piece, by its relative   *)
(* offset, into the corresponding fragment of every other side; it returns   *)
(* annotation builders (transposed annotations, a re-segmented copy of the   *)
(* source when it had to be cut, the new transposition) which are then added *)
(* to the store.  The action is specified exactly for the configuration the  *)
(* harness uses (fixed identifiers; the one identifier the library generates *)
(* itself is projected as "GEN@<handle>").                                   *)
(*                                                                           *)
(* Domain: the sides of `via` lie on pairwise different resources, the       *)
(* source annotation has a public identifier, selects non-empty text of one  *)
(* resource and - if it has several selections - lists them in text order.   *)
EXTENDS StamStore

TPSetId == "TP"      \* abstract id of https://w3id.org/stam/extensions/stam-transpose/

TBText(r, b, e) == [kind |-> "Text", a |-> ByH(r), b |-> NoRef, off |-> Off("B", b, "B", e), subs |-> <<>>]
TBAnnId(id) == [kind |-> "Ann", a |-> ById(id), b |-> NoRef, off |-> NoOffset, subs |-> <<>>]
TBDirectional(subs) == [kind |-> "Directional", a |-> NoRef, b |-> NoRef, off |-> NoOffset, subs |-> subs]
TPData(key) == <<[set |-> ById(TPSetId), key |-> ById(key), id |-> NoRef, val |-> NullVal]>>
ExistingData(p) == [set |-> ByH(p[1]), key |-> NoRef, id |-> ByH(p[2]), val |-> NullVal]

\* sides of a transposition: sequence of sequences of <<res, b, e>>; <<>> if `via` is not a transposition
Sides(st, t) ==
    LET lv == st.anns[t].leaves
    IN IF st.anns[t].kind = "Simple" THEN <<>>
       ELSE IF \A i \in DOMAIN lv : lv[i].k = "Ann" THEN [i \in DOMAIN lv |-> AnnText(st, lv[i].a)]
       ELSE IF \A i \in DOMAIN lv : lv[i].k = "Text" THEN [i \in DOMAIN lv |-> << <<lv[i].a, LeafRange(st, lv[i])[1], LeafRange(st, lv[i])[2]>> >>]
       ELSE <<>>
IsComplexTransposition(st, t) == \A i \in DOMAIN st.anns[t].leaves : st.anns[t].leaves[i].k = "Ann"

\* cut one source range [b, e) along the fragments of a side: sequence of <<fragment index, b, e>>, or <<"fail">>
\* a piece must begin inside a fragment; what sticks out at the end continues with the remainder
RECURSIVE CutRange(_, _, _)
CutRange(frags, b, e) ==
    IF b >= e THEN <<>>
    ELSE LET J == {j \in DOMAIN frags : frags[j][2] <= b /\ b < frags[j][3]}
         IN IF J = {} THEN << <<0, 0, 0>> >>
            ELSE LET j == CHOOSE x \in J : \A y \in J : x <= y
                     pe == Min2(e, frags[j][3])
                 IN << <<j, b, pe>> >> \o CutRange(frags, pe, e)

CutAll(frags, ranges) == Flatten([i \in DOMAIN ranges |-> CutRange(frags, ranges[i][2], ranges[i][3])])
CutOK(pieces) == pieces # <<>> /\ \A i \in DOMAIN pieces : pieces[i][1] # 0

\* [ok, side, pieces, resegment]: where the source lies and how it is cut
Locate(st, x, t) ==
    LET src == AnnText(st, x)
        sides == Sides(st, t)
        cand == {i \in DOMAIN sides : sides[i] # <<>> /\ \A j \in DOMAIN sides[i] : sides[i][j][1] = src[1][1]}
    IN IF src = <<>> \/ sides = <<>> \/ (\E i \in DOMAIN src : src[i][1] # src[1][1]) \/ cand = {}
       THEN [ok |-> FALSE, side |-> 0, pieces |-> <<>>, resegment |-> FALSE]
       ELSE LET s == CHOOSE i \in cand : \A k \in cand : i <= k
                pieces == CutAll(sides[s], src)
            IN [ok |-> CutOK(pieces), side |-> s, pieces |-> pieces, resegment |-> Len(pieces) # Len(src)]

\* the pieces mapped into side k
Mapped(sides, s, k, pieces) ==
    [i \in DOMAIN pieces |->
        LET j == pieces[i][1]
            rb == pieces[i][2] - sides[s][j][2]
            re == pieces[i][3] - sides[s][j][2]
        IN <<sides[k][j][1], sides[k][j][2] + rb, sides[k][j][2] + re>>]

TargetOf(ranges) ==
    IF Len(ranges) = 1 THEN TBText(ranges[1][1], ranges[1][2], ranges[1][3])
    ELSE TBDirectional([i \in DOMAIN ranges |-> TBText(ranges[i][1], ranges[i][2], ranges[i][3])])

\* domain of the specification (see module header)
TransposeInDomain(st, a) ==
    LET x == ResolveAnn(st, a.src)
        t == ResolveAnn(st, a.via)
    IN (x # 0 /\ t # 0) =>
         LET sides == Sides(st, t)
             src == AnnText(st, x)
         IN /\ st.anns[x].id # ""
            /\ \A i \in DOMAIN src : src[i][2] < src[i][3]
            /\ \A i, j \in DOMAIN src : i < j => src[i][3] <= src[j][2]
            /\ \A i, k \in DOMAIN sides : i # k =>
                 \A p \in DOMAIN sides[i], q \in DOMAIN sides[k] : sides[i][p][1] # sides[k][q][1]
            /\ \A i \in DOMAIN sides : \A p, q \in DOMAIN sides[i] : p # q =>
                 (sides[i][p][1] = sides[i][q][1] /\ (sides[i][p][3] <= sides[i][q][2] \/ sides[i][q][3] <= sides[i][p][2]))
            /\ \A i, k \in DOMAIN sides : Len(sides[i]) = Len(sides[k]) /\
                 \A p \in DOMAIN sides[i] : sides[i][p][3] - sides[i][p][2] = sides[k][p][3] - sides[k][p][2]

\* the builders transpose() returns: seq of [id, target, data]
\* a = [src: ref, via: ref, tag: string]; identifiers: "tp"+tag, "rs"+tag, "tt"+tag+"a".. for the target sides
TransposeBuilders(st, a) ==
    LET x == ResolveAnn(st, a.src)
        t == ResolveAnn(st, a.via)
        loc == Locate(st, x, t)
        sides == Sides(st, t)
        s == loc.side
        srcid == st.anns[x].id
        copydata == [i \in DOMAIN st.anns[x].data |-> ExistingData(st.anns[x].data[i])]
        genid == "GEN@" \o ToString(Len(st.anns) + Cardinality({k \in 1..(s - 1) : TRUE}) + 1)   \* handle the copy will get
        tids == <<"tt" \o a.tag \o "a", "tt" \o a.tag \o "b", "tt" \o a.tag \o "c">>
        others == SelectSeq([k \in DOMAIN sides |-> k], LAMBDA k : k # s)
        tidOf(k) == tids[CHOOSE i \in DOMAIN others : others[i] = k]
        sourcepieces == [i \in DOMAIN loc.pieces |-> <<sides[s][1][1], loc.pieces[i][2], loc.pieces[i][3]>>]
        sideId(k) == IF k # s THEN tidOf(k) ELSE IF loc.resegment THEN genid ELSE srcid
        sideBuilders(k) ==
            IF k # s THEN << [id |-> tidOf(k), target |-> TargetOf(Mapped(sides, s, k, loc.pieces)), data |-> copydata] >>
            ELSE IF loc.resegment
                 THEN << [id |-> genid, target |-> TargetOf(sourcepieces), data |-> copydata],
                         [id |-> "rs" \o a.tag, target |-> TBDirectional(<<TBAnnId(srcid), TBAnnId(genid)>>), data |-> TPData("Resegmentation")] >>
                 ELSE <<>>
    IN Flatten([k \in DOMAIN sides |-> sideBuilders(k)])
       \o << [id |-> "tp" \o a.tag, target |-> TBDirectional([k \in DOMAIN sides |-> TBAnnId(sideId(k))]), data |-> TPData("Transposition")] >>

RECURSIVE AnnotateAll(_, _)
AnnotateAll(st, bs) ==
    IF bs = <<>> THEN [outcome |-> "ok", st |-> st, res |-> 0]
    ELSE LET r == Annotate(st, Head(bs))
         IN IF r.outcome # "ok" THEN [outcome |-> "err", st |-> st, res |-> 0] ELSE AnnotateAll(r.st, Tail(bs))

\* the action: transpose, then add the returned annotations; on failure nothing changes
Transpose(st, a) ==
    LET x == ResolveAnn(st, a.src)
        t == ResolveAnn(st, a.via)
    IN IF x = 0 \/ t = 0 THEN Err(st)
       ELSE IF ~Locate(st, x, t).ok THEN Err(st)
       ELSE LET r == AnnotateAll(st, TransposeBuilders(st, a)) IN IF r.outcome = "ok" THEN r ELSE Err(st)

----------------------------------------------------------------------------
(* C16 as laws of the specification (checked by TLC on the bounded model after every Transpose step)          *)
TextOfRanges(st, ranges) == [i \in DOMAIN ranges |-> SubSeq(st.res[ranges[i][1]].text, ranges[i][2] + 1, ranges[i][3])]

\* every transposition in the store links sides with piecewise identical text
TranspositionsLinkIdenticalText(st) ==
    \A t \in LiveAnns(st) :
        (\E i \in DOMAIN st.anns[t].data : LET p == st.anns[t].data[i] IN
              st.sets[p[1]].id = TPSetId /\ st.sets[p[1]].keys[st.sets[p[1]].data[p[2]].key].id = "Transposition") =>
            LET sides == Sides(st, t)
            IN \A i, k \in DOMAIN sides : TextOfRanges(st, sides[i]) = TextOfRanges(st, sides[k])
=============================================================================
