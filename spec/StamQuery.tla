----------------------------- MODULE StamQuery -----------------------------
(* STAMQL (C09: grammar, printer, parse events; C08: meaning of queries).   *)
(*                                                                         *)
(* A query is  [qt, rt, name, opt, cs, subs]                                *)
(*   qt   "SELECT" | "ADD" | "DELETE"        rt   result type keyword       *)
(*   name variable name ("" = none)         opt  OPTIONAL sub-query         *)
(*   cs   sequence of constraints           subs sequence of sub-queries    *)
(* A constraint is a record of one fixed shape (so that it maps 1:1 to the  *)
(* JSON the harness logs):  [k, a, b, q, rec, off, op, v, lb, le, u]        *)
(*   k    kind (see the constructors below)                                 *)
(*   a, b identifiers / variable names / operator keyword                   *)
(*   q    AS METADATA qualifier      rec  RECURSIVE                         *)
(*   off  offset ([has, bk, bv, ek, ev])                                    *)
(*   op,v data operator ("=", "!=", ">", ">=", "<", "<=") and typed value   *)
(*   lb,le LIMIT bounds              u    members of a UNION                *)
EXTENDS StamRead

NoVal == NullVal
C0 == [k |-> "", a |-> "", b |-> "", q |-> FALSE, rec |-> FALSE, off |-> NoOffset, op |-> "", v |-> NoVal, lb |-> 0, le |-> 0, u |-> <<>>]

CId(id)              == [C0 EXCEPT !.k = "Id", !.a = id]
CAnn(id, q, rec)     == [C0 EXCEPT !.k = "Ann", !.a = id, !.q = q, !.rec = rec]
CAnnVar(v, q, rec)   == [C0 EXCEPT !.k = "AnnVar", !.a = v, !.q = q, !.rec = rec]
CRes(id, q)          == [C0 EXCEPT !.k = "Res", !.a = id, !.q = q]
CResVar(v, q)        == [C0 EXCEPT !.k = "ResVar", !.a = v, !.q = q]
CSet(id, q)          == [C0 EXCEPT !.k = "Set", !.a = id, !.q = q]
CSetVar(v, q)        == [C0 EXCEPT !.k = "SetVar", !.a = v, !.q = q]
CKey(s, k, q)        == [C0 EXCEPT !.k = "Key", !.a = s, !.b = k, !.q = q]
CKeyVal(s, k, op, v, q) == [C0 EXCEPT !.k = "KeyVal", !.a = s, !.b = k, !.op = op, !.v = v, !.q = q]
CDataVar(v, q)       == [C0 EXCEPT !.k = "DataVar", !.a = v, !.q = q]
CKeyVar(v, q)        == [C0 EXCEPT !.k = "KeyVar", !.a = v, !.q = q]
CValue(op, v)        == [C0 EXCEPT !.k = "Value", !.op = op, !.v = v]
CText(codes, nocase) == [C0 EXCEPT !.k = "Text", !.b = IF nocase THEN "nocase" ELSE "exact",
                                   !.v = [t |-> "text", s |-> "", n |-> 0, l |-> [i \in DOMAIN codes |-> [t |-> "int", s |-> "", n |-> codes[i], l |-> <<>>]]]]
CTextVar(v)          == [C0 EXCEPT !.k = "TextVar", !.a = v]
CRelation(v, opkw)   == [C0 EXCEPT !.k = "Relation", !.a = v, !.b = opkw]
CUnion(cs)           == [C0 EXCEPT !.k = "Union", !.u = cs]
CLimit(b, e)         == [C0 EXCEPT !.k = "Limit", !.lb = b, !.le = e]
WithOff(c, off)      == [c EXCEPT !.off = off]

Q(qt, rt, name, cs, subs) == [qt |-> qt, rt |-> rt, name |-> name, opt |-> FALSE, cs |-> cs, subs |-> subs]
Optional(q) == [q EXCEPT !.opt = TRUE]
EmptyQ == [qt |-> "", rt |-> "", name |-> "", opt |-> FALSE, cs |-> <<>>, subs |-> <<>>]

----------------------------------------------------------------------------
(* The canonical printer: a query as a sequence of tokens [t, s, v].        *)
(*   t = "kw":  s verbatim (keywords, punctuation, operators)               *)
(*   t = "id":  s an abstract identifier, printed as a quoted string        *)
(*   t = "var": ?s             t = "int": the integer v.n                   *)
(*   t = "val": the typed value v (quoted when it is a string)              *)
(*   t = "txt": the text v (codes), quoted                                  *)
(*   t = "raw": s verbatim (only used by mutations)                         *)
Tok(t, s) == [t |-> t, s |-> s, v |-> NoVal]
KW(s) == Tok("kw", s)
TokVal(t, v) == [t |-> t, s |-> "", v |-> v]
IntTok(n) == TokVal("int", [t |-> "int", s |-> "", n |-> n, l |-> <<>>])

QualToks(c) == IF c.q THEN <<KW("AS"), KW("METADATA")>> ELSE <<>>
RecToks(c) == IF c.rec THEN <<KW("RECURSIVE")>> ELSE <<>>
CursorTok(k, n) == TokVal("cur", [t |-> "cur", s |-> k, n |-> n, l |-> <<>>])   \* end-aligned cursors print with a sign (-0)
OffToks(c) == IF c.off.has THEN <<KW("OFFSET"), CursorTok(c.off.bk, c.off.bv), CursorTok(c.off.ek, c.off.ev)>> ELSE <<>>

RECURSIVE PrintC(_)
PrintC(c) ==
    CASE c.k = "Id"      -> <<KW("ID"), Tok("id", c.a), KW(";")>>
      [] c.k = "Ann"     -> <<KW("ANNOTATION")>> \o QualToks(c) \o RecToks(c) \o <<Tok("id", c.a)>> \o OffToks(c) \o <<KW(";")>>
      [] c.k = "AnnVar"  -> <<KW("ANNOTATION")>> \o QualToks(c) \o RecToks(c) \o <<Tok("var", c.a)>> \o OffToks(c) \o <<KW(";")>>
      [] c.k = "Res"     -> <<KW("RESOURCE")>> \o QualToks(c) \o <<Tok("id", c.a)>> \o OffToks(c) \o <<KW(";")>>
      [] c.k = "ResVar"  -> <<KW("RESOURCE")>> \o QualToks(c) \o <<Tok("var", c.a)>> \o OffToks(c) \o <<KW(";")>>
      [] c.k = "Set"     -> <<KW("DATASET")>> \o QualToks(c) \o <<Tok("id", c.a), KW(";")>>
      [] c.k = "SetVar"  -> <<KW("DATASET")>> \o QualToks(c) \o <<Tok("var", c.a), KW(";")>>
      [] c.k = "Key"     -> <<KW("DATA")>> \o QualToks(c) \o <<Tok("id", c.a), Tok("id", c.b), KW(";")>>
      [] c.k = "KeyVal"  -> <<KW("DATA")>> \o QualToks(c) \o <<Tok("id", c.a), Tok("id", c.b), KW(c.op), TokVal("val", c.v), KW(";")>>
      [] c.k = "DataVar" -> <<KW("DATA")>> \o QualToks(c) \o <<Tok("var", c.a), KW(";")>>
      [] c.k = "KeyVar"  -> <<KW("KEY")>> \o QualToks(c) \o <<Tok("var", c.a), KW(";")>>
      [] c.k = "Value"   -> <<KW("VALUE"), KW(c.op), TokVal("val", c.v), KW(";")>>
      [] c.k = "Text"    -> <<KW("TEXT")>> \o (IF c.b = "nocase" THEN <<KW("AS"), KW("NOCASE")>> ELSE <<>>) \o <<TokVal("txt", c.v), KW(";")>>
      [] c.k = "TextVar" -> <<KW("TEXT"), Tok("var", c.a), KW(";")>>
      [] c.k = "Relation" -> <<KW("RELATION"), Tok("var", c.a), KW(c.b), KW(";")>>
      [] c.k = "Limit"   -> <<KW("LIMIT"), IntTok(c.lb), IntTok(c.le), KW(";")>>
      [] c.k = "Union"   ->
            LET RECURSIVE Members(_)
                Members(i) == IF i > Len(c.u) THEN <<>>
                              ELSE LET m == PrintC(c.u[i])
                                       body == SubSeq(m, 1, Len(m) - 1)       \* without the ';' of the member
                                   IN body \o (IF i < Len(c.u) THEN <<KW("OR")>> ELSE <<>>) \o Members(i + 1)
            IN <<KW("[")>> \o Members(1) \o <<KW("]"), KW(";")>>
      [] OTHER -> <<Tok("raw", "?unknown-constraint")>>

RECURSIVE PrintQ(_)
PrintQ(q) ==
    <<KW(q.qt)>> \o (IF q.opt THEN <<KW("OPTIONAL")>> ELSE <<>>) \o <<KW(q.rt)>>
    \o (IF q.name # "" THEN <<Tok("var", q.name)>> ELSE <<>>)
    \o (IF q.cs # <<>> THEN <<KW("WHERE")>> \o Flatten([i \in DOMAIN q.cs |-> PrintC(q.cs[i])]) ELSE <<>>)
    \o (IF q.subs # <<>>
        THEN <<KW("{")>> \o Flatten([i \in DOMAIN q.subs |-> PrintQ(q.subs[i]) \o (IF i < Len(q.subs) THEN <<KW("|")>> ELSE <<>>)]) \o <<KW("}")>>
        ELSE <<>>)


----------------------------------------------------------------------------
(* C08: the meaning of SELECT queries (result types ANNOTATION, DATA, TEXT,  *)
(* RESOURCE, KEY and DATASET).                                               *)
(* An item is [t, a, b, c]: "ann" a; "data" a = set, b = data; "text"        *)
(* a = resource, b, c = range; "res" a; "none".  A row is a sequence of      *)
(* items, one per query level.  Constraints that name identifiers which do   *)
(* not resolve make the query fail (ok = FALSE).                              *)
Item(t, a, b, c) == [t |-> t, a |-> a, b |-> b, c |-> c]
NoneItem == Item("none", 0, 0, 0)
AnnItem(x) == Item("ann", x, 0, 0)
DataItem(s, d) == Item("data", s, d, 0)

EnvGet(env, name) == IF \E i \in DOMAIN env : env[i][1] = name THEN env[CHOOSE i \in DOMAIN env : env[i][1] = name][2] ELSE NoneItem

\* the documented comparison semantics for the value pool (val: a data value, (op, v): the operator)
\* strings of the pool that read as numbers / as "yes" (numeric/string cross-type comparison): float values are kept doubled
StrAsInt(s) == CASE s = "1" -> <<TRUE, 1>> [] s = "-7" -> <<TRUE, -7>> [] OTHER -> <<FALSE, 0>>
StrAsFloat2(s) == CASE s = "1" -> <<TRUE, 2>> [] s = "-7" -> <<TRUE, -14>> [] s = "1.5" -> <<TRUE, 3>> [] OTHER -> <<FALSE, 0>>
IsYesWord(s) == s \in {"yes", "1"}
TestEq(val, v) ==
    CASE v.t = "any" -> TRUE
      [] v.t = "null" -> val.t = "null"
      [] v.t = "bool" -> val.t = "bool" /\ val.n = v.n
      [] v.t = "str" -> \/ (val.t = "str" /\ val.s = v.s)
                        \/ (val.t = "bool" /\ (val.n = 1 <=> IsYesWord(v.s)))     \* true equals the "yes" words, false everything else
                        \/ (val.t = "int" /\ StrAsInt(v.s)[1] /\ StrAsInt(v.s)[2] = val.n)
                        \/ (val.t = "float" /\ StrAsFloat2(v.s)[1] /\ StrAsFloat2(v.s)[2] = val.n)
      [] v.t = "int" -> val.t = "int" /\ val.n = v.n
      [] v.t = "float" -> val.t = "float" /\ val.n = v.n
      [] v.t = "datetime" -> val.t = "datetime" /\ val.n = v.n
      [] OTHER -> FALSE
TestValue(val, op, v) ==
    CASE op = "=" -> TestEq(val, v)
      [] op = "!=" -> ~TestEq(val, v)
      [] op = ">" -> val.t = v.t /\ v.t \in {"int", "float", "datetime"} /\ val.n > v.n
      [] op = ">=" -> val.t = v.t /\ v.t \in {"int", "float", "datetime"} /\ val.n >= v.n
      [] op = "<" -> val.t = v.t /\ v.t \in {"int", "float", "datetime"} /\ val.n < v.n
      [] op = "<=" -> val.t = v.t /\ v.t \in {"int", "float", "datetime"} /\ val.n <= v.n
      \* disjunction of equalities, conjunction of two bounds (both over the elements of a list value), list membership
      [] op = "or" -> \E i \in DOMAIN v.l : TestEq(val, v.l[i])
      [] op = "!or" -> ~\E i \in DOMAIN v.l : TestEq(val, v.l[i])
      [] op = "and" -> val.t = "int" /\ val.n > v.l[1].n /\ val.n < v.l[2].n
      [] op = "has" -> val.t = "list" /\ \E i \in DOMAIN val.l : TestEq(val.l[i], v)
      [] OTHER -> FALSE

DataValOf(st, p) == st.sets[p[1]].data[p[2]].val
DataKeyOf(st, p) == st.sets[p[1]].data[p[2]].key
LiveData(st) == UNION {{<<s, d>> : d \in {d \in 1..Len(st.sets[s].data) : st.sets[s].data[d].alive}} : s \in LiveSets(st)}
AnnData(st, x) == Range(st.anns[x].data)

AnnsOnRange(st, r, b, e) == {x \in LiveAnns(st) : HasLeaf(st.anns[x], LAMBDA l : IsTextLeaf(l) /\ LeafRes(l) = r /\ LeafRange(st, l) = <<b, e>>)}
RECURSIVE TargetsRec(_, _, _)
TargetsRec(st, X, seen) ==
    LET N == UNION {Range(AnnTargets(st, x)) : x \in X} \ seen
    IN IF N = {} THEN seen ELSE TargetsRec(st, N, seen \cup N)

\* text selections an item stands for: <<res, b, e>>
ItemRanges(st, it) ==
    CASE it.t = "text" -> {<<it.a, it.b, it.c>>}
      [] it.t = "ann" -> Range(AnnText(st, it.a))
      [] OTHER -> {}

RelOp(kw) == [op |-> CASE kw = "EQUALS" -> "Equals" [] kw = "EMBEDS" -> "Embeds" [] kw = "EMBEDDED" -> "Embedded" [] kw = "OVERLAPS" -> "Overlaps"
                       [] kw = "PRECEDES" -> "Precedes" [] kw = "SUCCEEDS" -> "Succeeds" [] kw = "SAMEBEGIN" -> "SameBegin"
                       [] kw = "SAMEEND" -> "SameEnd" [] kw = "BEFORE" -> "Before" [] OTHER -> "After",
              all |-> FALSE, negate |-> FALSE, ws |-> kw \in {"PRECEDES", "SUCCEEDS"}, limit |-> 0]

\* known text selections related to the item (a set of <<res, b, e>>)
RelatedOfItem(st, it, kw) ==
    LET rs == ItemRanges(st, it)
    IN IF rs = {} THEN {}
       ELSE LET r == (CHOOSE x \in rs : TRUE)[1]
                ref == SortRanges({<<x[2], x[3]>> : x \in {y \in rs : y[1] = r}})
                got == RelatedTextExpected(st, [res |-> ByH(r), A |-> ref, o |-> RelOp(kw)]).ranges
            IN {<<r, got[i][1], got[i][2]>> : i \in DOMAIN got}

QFail == [ok |-> FALSE, S |-> {}]
QOk(S) == [ok |-> TRUE, S |-> S]

\* annotations satisfying one constraint: [ok, S]
RECURSIVE SatAnn(_, _, _)
SatAnn(st, env, c) ==
    LET s == ResolveSet(st, ById(c.a))
        k == IF s = 0 THEN 0 ELSE ResolveKey(st.sets[s], ById(c.b))
        it == EnvGet(env, c.a)
    IN CASE c.k = "Id" -> LET x == ResolveAnn(st, ById(c.a)) IN IF x = 0 THEN QFail ELSE QOk({x})
         [] c.k = "Key" -> IF k = 0 THEN QFail
                           ELSE IF c.q THEN QOk(Range(AnnsOnKey(st, s, k))) ELSE QOk(Range(AnnsUsingKey(st, s, k)))
         [] c.k = "KeyVal" -> IF k = 0 THEN QFail
                              ELSE QOk({x \in LiveAnns(st) : \E p \in AnnData(st, x) : p[1] = s /\ DataKeyOf(st, p) = k /\ TestValue(DataValOf(st, p), c.op, c.v)})
         [] c.k = "Value" -> QOk({x \in LiveAnns(st) : \E p \in AnnData(st, x) : TestValue(DataValOf(st, p), c.op, c.v)})
         [] c.k = "Res" -> LET r == ResolveRes(st, ById(c.a))
                           IN IF r = 0 THEN QFail ELSE IF c.q THEN QOk(Range(AnnsOnResMeta(st, r))) ELSE QOk(Range(AnnsOnResText(st, r)))
         [] c.k = "Set" -> IF s = 0 THEN QFail
                           ELSE IF c.q THEN QOk(Range(AnnsOnSet(st, s))) ELSE QOk({x \in LiveAnns(st) : \E p \in AnnData(st, x) : p[1] = s})
         [] c.k = "Ann" -> LET y == ResolveAnn(st, ById(c.a))
                           IN IF y = 0 THEN QFail
                              ELSE IF c.q THEN QOk(Range(AnnsOnAnn(st, y)))
                              ELSE IF c.rec THEN QOk(TargetsRec(st, {y}, {})) ELSE QOk(Range(AnnTargets(st, y)))
         [] c.k = "Text" -> LET codes == [i \in DOMAIN c.v.l |-> c.v.l[i].n]
                                hits(r) == IF c.b = "nocase" THEN FindAllNoCase(st.res[r].text, 0, Len(st.res[r].text), codes)
                                           ELSE FindAll(st.res[r].text, 0, Len(st.res[r].text), codes)
                            IN QOk(UNION {UNION {AnnsOnRange(st, r, hits(r)[i][1], hits(r)[i][2]) : i \in DOMAIN hits(r)} : r \in LiveRes(st)})
         [] c.k = "TextVar" -> IF it.t \notin {"text", "ann"} THEN QFail
                               ELSE QOk(UNION {AnnsOnRange(st, x[1], x[2], x[3]) : x \in ItemRanges(st, it)})
         [] c.k = "Relation" -> IF it.t \notin {"text", "ann"} THEN QFail
                                ELSE QOk(UNION {AnnsOnRange(st, x[1], x[2], x[3]) : x \in RelatedOfItem(st, it, c.b)})
         [] c.k = "AnnVar" -> IF it.t # "ann" THEN QFail
                              ELSE IF c.q THEN QOk(Range(AnnsOnAnn(st, it.a)))
                              ELSE IF c.rec THEN QOk(TargetsRec(st, {it.a}, {})) ELSE QOk(Range(AnnTargets(st, it.a)))
         [] c.k = "ResVar" -> IF it.t # "res" THEN QFail
                              ELSE IF c.q THEN QOk(Range(AnnsOnResMeta(st, it.a))) ELSE QOk(Range(AnnsOnResText(st, it.a)))
         [] c.k = "DataVar" -> IF it.t # "data" THEN QFail ELSE QOk(Range(AnnsUsingData(st, it.a, it.b)))
         [] c.k = "Union" -> LET rs == [i \in DOMAIN c.u |-> SatAnn(st, env, c.u[i])]
                             IN IF \E i \in DOMAIN rs : ~rs[i].ok THEN QFail ELSE QOk(UNION {rs[i].S : i \in DOMAIN rs})
         [] OTHER -> QFail

\* data items satisfying one constraint
SatData(st, env, c) ==
    LET s == ResolveSet(st, ById(c.a))
        k == IF s = 0 THEN 0 ELSE ResolveKey(st.sets[s], ById(c.b))
        it == EnvGet(env, c.a)
    IN CASE c.k = "Key" -> IF k = 0 THEN QFail ELSE QOk({p \in LiveData(st) : p[1] = s /\ DataKeyOf(st, p) = k})
         [] c.k = "KeyVal" -> IF k = 0 THEN QFail ELSE QOk({p \in LiveData(st) : p[1] = s /\ DataKeyOf(st, p) = k /\ TestValue(DataValOf(st, p), c.op, c.v)})
         [] c.k = "Value" -> QOk({p \in LiveData(st) : TestValue(DataValOf(st, p), c.op, c.v)})
         [] c.k = "Set" -> IF s = 0 THEN QFail ELSE QOk({p \in LiveData(st) : p[1] = s})
         [] c.k = "Ann" -> LET y == ResolveAnn(st, ById(c.a))
                           IN IF y = 0 THEN QFail
                              ELSE IF c.q THEN QOk({<<l.a, l.b>> : l \in {m \in Range(st.anns[y].leaves) : m.k = "Data"}})
                              ELSE QOk(AnnData(st, y))
         [] c.k = "AnnVar" -> IF it.t # "ann" THEN QFail
                              ELSE IF c.q THEN QOk({<<l.a, l.b>> : l \in {m \in Range(st.anns[it.a].leaves) : m.k = "Data"}})
                              ELSE QOk(AnnData(st, it.a))
         [] c.k = "TextVar" -> IF it.t # "text" THEN QFail
                               ELSE QOk(UNION {AnnData(st, x) : x \in AnnsOnRange(st, it.a, it.b, it.c)})
         [] OTHER -> QFail

\* C10: data search equals a scan.  a = [set (id or ""), key (id or ""), op, v]; answer [ok, items: seq of <<set, data>>]
FindDataExpected(st, a) ==
    LET s == IF a.set = "" THEN 0 ELSE ResolveSet(st, ById(a.set))
        k == IF a.key = "" \/ s = 0 THEN 0 ELSE ResolveKey(st.sets[s], ById(a.key))
    IN IF (a.set # "" /\ s = 0) \/ (a.key # "" /\ k = 0) THEN {}
       ELSE {p \in LiveData(st) : (s = 0 \/ p[1] = s) /\ (k = 0 \/ DataKeyOf(st, p) = k) /\ TestValue(DataValOf(st, p), a.op, a.v)}
FindDataOK(st, r) == r.outcome = "ok" /\ NoDup(r.api.items) /\ Range(r.api.items) = FindDataExpected(st, r.a)

\* text selections (<<res, b, e>>) satisfying one constraint of a TEXT query.  The universe of a TEXT query is the
\* selections that live annotations select; a TEXT "needle" constraint (alone) instead denotes the matches of the search
AnnotatedSels(st) == UNION {Range(AnnText(st, x)) : x \in LiveAnns(st)}
SelsWithData(st, P(_)) == {t \in AnnotatedSels(st) : \E x \in AnnsOnRange(st, t[1], t[2], t[3]) : \E p \in AnnData(st, x) : P(p)}
SatText(st, env, c) ==
    LET s == ResolveSet(st, ById(c.a))
        k == IF s = 0 THEN 0 ELSE ResolveKey(st.sets[s], ById(c.b))
        it == EnvGet(env, c.a)
    IN CASE c.k = "Res" -> LET r == ResolveRes(st, ById(c.a)) IN IF r = 0 \/ c.q THEN QFail ELSE QOk({t \in AnnotatedSels(st) : t[1] = r})
         [] c.k = "Ann" -> LET y == ResolveAnn(st, ById(c.a)) IN IF y = 0 \/ c.q \/ c.rec THEN QFail ELSE QOk(Range(AnnText(st, y)))
         [] c.k = "Key" -> IF k = 0 \/ c.q THEN QFail ELSE QOk(SelsWithData(st, LAMBDA p : p[1] = s /\ DataKeyOf(st, p) = k))
         [] c.k = "KeyVal" -> IF k = 0 \/ c.q THEN QFail
                              ELSE QOk(SelsWithData(st, LAMBDA p : p[1] = s /\ DataKeyOf(st, p) = k /\ TestValue(DataValOf(st, p), c.op, c.v)))
         [] c.k = "Value" -> QOk(SelsWithData(st, LAMBDA p : TestValue(DataValOf(st, p), c.op, c.v)))
         [] c.k = "Text" -> LET codes == [i \in DOMAIN c.v.l |-> c.v.l[i].n]
                                hits(r) == IF c.b = "nocase" THEN FindAllNoCase(st.res[r].text, 0, Len(st.res[r].text), codes)
                                           ELSE FindAll(st.res[r].text, 0, Len(st.res[r].text), codes)
                            IN QOk(UNION {{<<r, hits(r)[i][1], hits(r)[i][2]>> : i \in DOMAIN hits(r)} : r \in LiveRes(st)})
         [] c.k = "AnnVar" -> IF it.t # "ann" \/ c.q \/ c.rec THEN QFail ELSE QOk(Range(AnnText(st, it.a)))
         [] c.k = "ResVar" -> IF it.t # "res" \/ c.q THEN QFail ELSE QOk({t \in AnnotatedSels(st) : t[1] = it.a})
         [] c.k = "DataVar" -> IF it.t # "data" \/ c.q THEN QFail ELSE QOk(SelsWithData(st, LAMBDA p : p = <<it.a, it.b>>))
         [] c.k = "Relation" -> IF it.t \notin {"text", "ann"} THEN QFail ELSE QOk(RelatedOfItem(st, it, c.b))
         [] OTHER -> QFail

\* resources satisfying one constraint of a RESOURCE query (normal: through the text annotations select; AS METADATA:
\* as the target of a ResourceSelector)
ResOfAnns(st, X, meta) ==
    IF meta THEN {l.a : l \in UNION {{m \in Range(st.anns[x].leaves) : m.k = "Res"} : x \in X}}
    \* (annotation.resources() follows annotation selectors down to the text they select; the documentation only says
    \*  "targeted via a TextSelector", so the recursion is taken over from the code)
    ELSE UNION {{t[1] : t \in Range(AnnText(st, y))} : y \in X \cup TargetsRec(st, X, {})}
SatRes(st, env, c) ==
    LET s == ResolveSet(st, ById(c.a))
        k == IF s = 0 THEN 0 ELSE ResolveKey(st.sets[s], ById(c.b))
    IN CASE c.k \in {"Id", "Res"} -> LET r == ResolveRes(st, ById(c.a)) IN IF r = 0 THEN QFail ELSE QOk({r})
         [] c.k = "Key" -> IF k = 0 THEN QFail ELSE QOk(ResOfAnns(st, Range(AnnsUsingKey(st, s, k)), c.q))
         [] c.k = "KeyVal" -> IF k = 0 THEN QFail
                              ELSE QOk(ResOfAnns(st, {x \in LiveAnns(st) : \E p \in AnnData(st, x) : p[1] = s /\ DataKeyOf(st, p) = k /\ TestValue(DataValOf(st, p), c.op, c.v)}, c.q))
         [] OTHER -> QFail

\* keys (<<set, key>>) of a KEY query and datasets of a DATASET query (single constraints only: no secondary
\* constraints other than LIMIT are implemented for these result types)
LiveKeys(st) == UNION {{<<s, k>> : k \in {k \in 1..Len(st.sets[s].keys) : st.sets[s].keys[k].alive}} : s \in LiveSets(st)}
KeysOfAnn(st, y, meta) ==
    IF meta THEN {<<l.a, l.b>> : l \in {m \in Range(st.anns[y].leaves) : m.k = "Key"}}
    ELSE {<<p[1], DataKeyOf(st, p)>> : p \in AnnData(st, y)}
SatKey(st, env, c) ==
    LET it == EnvGet(env, c.a)
    IN CASE c.k = "Set" -> LET s == ResolveSet(st, ById(c.a)) IN IF s = 0 \/ c.q THEN QFail ELSE QOk({p \in LiveKeys(st) : p[1] = s})
         [] c.k = "Ann" -> LET y == ResolveAnn(st, ById(c.a)) IN IF y = 0 \/ c.rec THEN QFail ELSE QOk(KeysOfAnn(st, y, c.q))
         [] c.k = "AnnVar" -> IF it.t # "ann" \/ c.rec THEN QFail ELSE QOk(KeysOfAnn(st, it.a, c.q))
         [] c.k = "DataVar" -> IF it.t # "data" \/ c.q THEN QFail ELSE QOk({<<it.a, DataKeyOf(st, <<it.a, it.b>>)>>})
         [] OTHER -> QFail
SatSet(st, env, c) ==
    IF c.k \in {"Id", "Set"} THEN LET s == ResolveSet(st, ById(c.a)) IN IF s = 0 THEN QFail ELSE QOk({s}) ELSE QFail

ItemsOf(rt, S) == CASE rt = "ANNOTATION" -> {AnnItem(x) : x \in S}
                    [] rt = "DATA" -> {DataItem(p[1], p[2]) : p \in S}
                    [] rt = "TEXT" -> {Item("text", t[1], t[2], t[3]) : t \in S}
                    [] rt = "KEY" -> {Item("key", p[1], p[2], 0) : p \in S}
                    [] rt = "DATASET" -> {Item("set", x, 0, 0) : x \in S}
                    [] OTHER -> {Item("res", r, 0, 0) : r \in S}
AllOf(st, rt) == CASE rt = "ANNOTATION" -> LiveAnns(st) [] rt = "DATA" -> LiveData(st) [] rt = "TEXT" -> AnnotatedSels(st)
                   [] rt = "KEY" -> LiveKeys(st) [] rt = "DATASET" -> LiveSets(st) [] OTHER -> LiveRes(st)
SatOf(st, env, rt, c) == CASE rt = "ANNOTATION" -> SatAnn(st, env, c) [] rt = "DATA" -> SatData(st, env, c)
                           [] rt = "TEXT" -> SatText(st, env, c) [] rt = "KEY" -> SatKey(st, env, c)
                           [] rt = "DATASET" -> SatSet(st, env, c) [] OTHER -> SatRes(st, env, c)

\* items of one query level (LIMIT constraints are not part of the meaning: see QueryOK)
LevelItems(st, env, q) ==
    LET cs == SelectSeq(q.cs, LAMBDA c : c.k # "Limit")
        rs == [i \in DOMAIN cs |-> SatOf(st, env, q.rt, cs[i])]
    IN IF \E i \in DOMAIN rs : ~rs[i].ok THEN QFail
       ELSE IF cs = <<>> THEN QOk(ItemsOf(q.rt, AllOf(st, q.rt)))
       ELSE QOk(ItemsOf(q.rt, {x \in UNION {rs[i].S : i \in DOMAIN rs} : \A i \in DOMAIN rs : x \in rs[i].S}))

\* rows of a query with at most one sub-query per level, nested iteration: [ok, rows (a set of sequences of items)]
RECURSIVE EvalQ(_, _, _)
EvalQ(st, env, q) ==
    LET lv == LevelItems(st, env, q)
    IN IF ~lv.ok THEN [ok |-> FALSE, rows |-> {}]
       ELSE IF q.subs = <<>> THEN [ok |-> TRUE, rows |-> {<<it>> : it \in lv.S}]
       ELSE LET sub == q.subs[1]
                inner(it) == EvalQ(st, Append(env, <<q.name, it>>), sub)
            IN IF \E it \in lv.S : ~inner(it).ok THEN [ok |-> FALSE, rows |-> {}]
               ELSE [ok |-> TRUE,
                     rows |-> UNION {IF inner(it).rows = {}
                                     THEN (IF sub.opt THEN {<<it>>} ELSE {})    \* an optional sub-query without results leaves the outer row as it is
                                     ELSE {<<it>> \o r : r \in inner(it).rows} : it \in lv.S}]

\* LIMIT b e on a sequence: begin b (negative: from the end), end e (0 or negative: from the end)
Slice(rows, b, e) ==
    LET n == Len(rows)
        lo == IF b < 0 THEN Max2(n + b, 0) ELSE Min2(b, n)
        hi == IF e <= 0 THEN Max2(n + e, 0) ELSE Min2(e, n)
    IN IF lo >= hi THEN <<>> ELSE SubSeq(rows, lo + 1, hi)

\* a Query event: a = [q, form, perm]; api = [ok, rows, base]  (base: the same query without its LIMIT constraint)
QueryLimit(q) == LET ls == SelectSeq(q.cs, LAMBDA c : c.k = "Limit") IN IF ls = <<>> THEN <<>> ELSE <<ls[1].lb, ls[1].le>>
QueryOK(st, r) ==
    LET q == r.a.q
        exp == EvalQ(st, <<>>, q)
        lim == QueryLimit(q)
    IN IF ~exp.ok THEN r.outcome = "err"
       ELSE /\ r.outcome = "ok" /\ r.api.ok
            /\ NoDup(r.api.base)                                   \* no item twice
            /\ Range(r.api.base) = exp.rows                        \* exactly the items that satisfy all constraints
            /\ r.api.rows = (IF lim = <<>> THEN r.api.base ELSE Slice(r.api.base, lim[1], lim[2]))

----------------------------------------------------------------------------
(* C09: what a Parse event must look like.                                  *)
(* a = [toks, ast, mutated, built]                                          *)
(* api = [parsed, ast1, print_ok, reparse_ok, ast2, d1, d2, ast0]           *)
ParseOK(r) ==
    LET a == r.a
        g == r.api
        fixpoint == g.print_ok /\ g.reparse_ok /\ g.ast2 = g.ast1 /\ g.d1 = g.d2
    IN IF a.mutated
       THEN \* totality: a query or a syntax error, never a panic; and whatever was accepted prints and re-parses to itself
            /\ r.outcome \in {"ok", "err"}
            /\ (r.outcome = "ok" => (g.parsed /\ (g.print_ok => fixpoint)))
       ELSE /\ r.outcome = "ok" /\ g.parsed
            /\ (a.built => g.ast0 = a.ast)      \* the programmatically built query is the intended one
            /\ g.ast1 = a.ast                   \* what was parsed (from the text, or from the printed built query)
            /\ fixpoint
=============================================================================
