----------------------------- MODULE StamQuery -----------------------------
(* STAMQL (C09: grammar, printer, parse events; C08: meaning of queries).   *)
(*                                                                         *)
(* A query is  [qt, rt, name, opt, cs, subs]                                *)
(*   qt   "SELECT" | "ADD" | "DELETE"        rt   result type keyword       *)
(*   name variable name ("" = none)         opt  OPTIONAL sub-query         *)
(*   cs   sequence of constraints           subs sequence of sub-queries    *)
(* A constraint is a record of one fixed shape (so that it maps 1:1 to the  *)
(* JSON the harness logs):  [k, a, b, q, rec, off, op, v, lb, le, u]        *)
(*   k    kind (see the constructors below)                                 *)
(*   a, b identifiers / variable names / operator keyword                   *)
(*   q    AS METADATA qualifier      rec  RECURSIVE                         *)
(*   off  offset ([has, bk, bv, ek, ev])                                    *)
(*   op,v data operator ("=", "!=", ">", ">=", "<", "<=") and typed value   *)
(*   lb,le LIMIT bounds              u    members of a UNION                *)
EXTENDS StamStore

NoVal == NullVal
C0 == [k |-> "", a |-> "", b |-> "", q |-> FALSE, rec |-> FALSE, off |-> NoOffset, op |-> "", v |-> NoVal, lb |-> 0, le |-> 0, u |-> <<>>]

CId(id)              == [C0 EXCEPT !.k = "Id", !.a = id]
CAnn(id, q, rec)     == [C0 EXCEPT !.k = "Ann", !.a = id, !.q = q, !.rec = rec]
CAnnVar(v, q, rec)   == [C0 EXCEPT !.k = "AnnVar", !.a = v, !.q = q, !.rec = rec]
CRes(id, q)          == [C0 EXCEPT !.k = "Res", !.a = id, !.q = q]
CResVar(v, q)        == [C0 EXCEPT !.k = "ResVar", !.a = v, !.q = q]
CSet(id, q)          == [C0 EXCEPT !.k = "Set", !.a = id, !.q = q]
CSetVar(v, q)        == [C0 EXCEPT !.k = "SetVar", !.a = v, !.q = q]
CKey(s, k, q)        == [C0 EXCEPT !.k = "Key", !.a = s, !.b = k, !.q = q]
CKeyVal(s, k, op, v, q) == [C0 EXCEPT !.k = "KeyVal", !.a = s, !.b = k, !.op = op, !.v = v, !.q = q]
CDataVar(v, q)       == [C0 EXCEPT !.k = "DataVar", !.a = v, !.q = q]
CKeyVar(v, q)        == [C0 EXCEPT !.k = "KeyVar", !.a = v, !.q = q]
CValue(op, v)        == [C0 EXCEPT !.k = "Value", !.op = op, !.v = v]
CText(codes, nocase) == [C0 EXCEPT !.k = "Text", !.b = IF nocase THEN "nocase" ELSE "exact",
                                   !.v = [t |-> "text", s |-> "", n |-> 0, l |-> [i \in DOMAIN codes |-> [t |-> "int", s |-> "", n |-> codes[i], l |-> <<>>]]]]
CTextVar(v)          == [C0 EXCEPT !.k = "TextVar", !.a = v]
CRelation(v, opkw)   == [C0 EXCEPT !.k = "Relation", !.a = v, !.b = opkw]
CUnion(cs)           == [C0 EXCEPT !.k = "Union", !.u = cs]
CLimit(b, e)         == [C0 EXCEPT !.k = "Limit", !.lb = b, !.le = e]
WithOff(c, off)      == [c EXCEPT !.off = off]

Q(qt, rt, name, cs, subs) == [qt |-> qt, rt |-> rt, name |-> name, opt |-> FALSE, cs |-> cs, subs |-> subs]
Optional(q) == [q EXCEPT !.opt = TRUE]
EmptyQ == [qt |-> "", rt |-> "", name |-> "", opt |-> FALSE, cs |-> <<>>, subs |-> <<>>]

----------------------------------------------------------------------------
(* The canonical printer: a query as a sequence of tokens [t, s, v].        *)
(*   t = "kw":  s verbatim (keywords, punctuation, operators)               *)
(*   t = "id":  s an abstract identifier, printed as a quoted string        *)
(*   t = "var": ?s             t = "int": the integer v.n                   *)
(*   t = "val": the typed value v (quoted when it is a string)              *)
(*   t = "txt": the text v (codes), quoted                                  *)
(*   t = "raw": s verbatim (only used by mutations)                         *)
Tok(t, s) == [t |-> t, s |-> s, v |-> NoVal]
KW(s) == Tok("kw", s)
TokVal(t, v) == [t |-> t, s |-> "", v |-> v]
IntTok(n) == TokVal("int", [t |-> "int", s |-> "", n |-> n, l |-> <<>>])

QualToks(c) == IF c.q THEN <<KW("AS"), KW("METADATA")>> ELSE <<>>
RecToks(c) == IF c.rec THEN <<KW("RECURSIVE")>> ELSE <<>>
CursorTok(k, n) == TokVal("cur", [t |-> "cur", s |-> k, n |-> n, l |-> <<>>])   \* end-aligned cursors print with a sign (-0)
OffToks(c) == IF c.off.has THEN <<KW("OFFSET"), CursorTok(c.off.bk, c.off.bv), CursorTok(c.off.ek, c.off.ev)>> ELSE <<>>

RECURSIVE PrintC(_)
PrintC(c) ==
    CASE c.k = "Id"      -> <<KW("ID"), Tok("id", c.a), KW(";")>>
      [] c.k = "Ann"     -> <<KW("ANNOTATION")>> \o QualToks(c) \o RecToks(c) \o <<Tok("id", c.a)>> \o OffToks(c) \o <<KW(";")>>
      [] c.k = "AnnVar"  -> <<KW("ANNOTATION")>> \o QualToks(c) \o RecToks(c) \o <<Tok("var", c.a)>> \o OffToks(c) \o <<KW(";")>>
      [] c.k = "Res"     -> <<KW("RESOURCE")>> \o QualToks(c) \o <<Tok("id", c.a)>> \o OffToks(c) \o <<KW(";")>>
      [] c.k = "ResVar"  -> <<KW("RESOURCE")>> \o QualToks(c) \o <<Tok("var", c.a)>> \o OffToks(c) \o <<KW(";")>>
      [] c.k = "Set"     -> <<KW("DATASET")>> \o QualToks(c) \o <<Tok("id", c.a), KW(";")>>
      [] c.k = "SetVar"  -> <<KW("DATASET")>> \o QualToks(c) \o <<Tok("var", c.a), KW(";")>>
      [] c.k = "Key"     -> <<KW("DATA")>> \o QualToks(c) \o <<Tok("id", c.a), Tok("id", c.b), KW(";")>>
      [] c.k = "KeyVal"  -> <<KW("DATA")>> \o QualToks(c) \o <<Tok("id", c.a), Tok("id", c.b), KW(c.op), TokVal("val", c.v), KW(";")>>
      [] c.k = "DataVar" -> <<KW("DATA")>> \o QualToks(c) \o <<Tok("var", c.a), KW(";")>>
      [] c.k = "KeyVar"  -> <<KW("KEY")>> \o QualToks(c) \o <<Tok("var", c.a), KW(";")>>
      [] c.k = "Value"   -> <<KW("VALUE"), KW(c.op), TokVal("val", c.v), KW(";")>>
      [] c.k = "Text"    -> <<KW("TEXT")>> \o (IF c.b = "nocase" THEN <<KW("AS"), KW("NOCASE")>> ELSE <<>>) \o <<TokVal("txt", c.v), KW(";")>>
      [] c.k = "TextVar" -> <<KW("TEXT"), Tok("var", c.a), KW(";")>>
      [] c.k = "Relation" -> <<KW("RELATION"), Tok("var", c.a), KW(c.b), KW(";")>>
      [] c.k = "Limit"   -> <<KW("LIMIT"), IntTok(c.lb), IntTok(c.le), KW(";")>>
      [] c.k = "Union"   ->
            LET RECURSIVE Members(_)
                Members(i) == IF i > Len(c.u) THEN <<>>
                              ELSE LET m == PrintC(c.u[i])
                                       body == SubSeq(m, 1, Len(m) - 1)       \* without the ';' of the member
                                   IN body \o (IF i < Len(c.u) THEN <<KW("OR")>> ELSE <<>>) \o Members(i + 1)
            IN <<KW("[")>> \o Members(1) \o <<KW("]"), KW(";")>>
      [] OTHER -> <<Tok("raw", "?unknown-constraint")>>

RECURSIVE PrintQ(_)
PrintQ(q) ==
    <<KW(q.qt)>> \o (IF q.opt THEN <<KW("OPTIONAL")>> ELSE <<>>) \o <<KW(q.rt)>>
    \o (IF q.name # "" THEN <<Tok("var", q.name)>> ELSE <<>>)
    \o (IF q.cs # <<>> THEN <<KW("WHERE")>> \o Flatten([i \in DOMAIN q.cs |-> PrintC(q.cs[i])]) ELSE <<>>)
    \o (IF q.subs # <<>>
        THEN <<KW("{")>> \o Flatten([i \in DOMAIN q.subs |-> PrintQ(q.subs[i]) \o (IF i < Len(q.subs) THEN <<KW("|")>> ELSE <<>>)]) \o <<KW("}")>>
        ELSE <<>>)

----------------------------------------------------------------------------
(* C09: what a Parse event must look like.                                  *)
(* a = [toks, ast, mutated, built]                                          *)
(* api = [parsed, ast1, print_ok, reparse_ok, ast2, d1, d2, ast0]           *)
ParseOK(r) ==
    LET a == r.a
        g == r.api
        fixpoint == g.print_ok /\ g.reparse_ok /\ g.ast2 = g.ast1 /\ g.d1 = g.d2
    IN IF a.mutated
       THEN \* totality: a query or a syntax error, never a panic; and whatever was accepted prints and re-parses to itself
            /\ r.outcome \in {"ok", "err"}
            /\ (r.outcome = "ok" => (g.parsed /\ (g.print_ok => fixpoint)))
       ELSE /\ r.outcome = "ok" /\ g.parsed
            /\ (a.built => g.ast0 = a.ast)      \* the programmatically built query is the intended one
            /\ g.ast1 = a.ast                   \* what was parsed (from the text, or from the printed built query)
            /\ fixpoint
=============================================================================
