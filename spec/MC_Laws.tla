------------------------------ MODULE MC_Laws ------------------------------
(* Bounded instances for the algebraic laws of the pure parts of the        *)
(* specification (C04 offsets, C07/C12 text, C13/C06 relations).  Every law *)
(* is an invariant over a state space whose states ARE the cases: the       *)
(* initial states enumerate the cases, there are no transitions besides      *)
(* stuttering, so "distinct states" is the number of cases checked.          *)
EXTENDS StamRead

CONSTANTS Law,      \* "relations" | "offsets" | "text"
          N         \* bound on text length / positions

VARIABLE c
vars == <<c>>

Ops == {"Equals", "Overlaps", "Embeds", "Embedded", "Before", "After", "Precedes", "Succeeds", "SameBegin", "SameEnd"}
O(op, al, neg, ws) == [op |-> op, all |-> al, negate |-> neg, ws |-> ws, limit |-> 0]
RText == <<11, 31, 33, 21, 51, 11>>        \* a, space, em-space, b, c, a
RangesN == {r \in (0..N) \X (0..N) : r[1] <= r[2]}
SetsN == {{x} : x \in RangesN} \cup {{p[1], p[2]} : p \in RangesN \X RangesN}

RelCases == {[k |-> "pair", a |-> p[1], b |-> p[2]] : p \in RangesN \X RangesN}
            \cup {[k |-> "sets", sa |-> p[1], sb |-> p[2]] : p \in SetsN \X SetsN}

OffCases == {[k |-> "report", cb |-> cb, ce |-> ce] : cb \in 0..N, ce \in 0..N}
            \cup {[k |-> "valid", len |-> len] : len \in 0..N}

Alphabet == {11, 12, 41}
TextCases == {[k |-> "text", t |-> t] : t \in UNION {[1..n -> Alphabet] : n \in 0..N}}

Init == c \in CASE Law = "relations" -> RelCases [] Law = "offsets" -> OffCases [] OTHER -> TextCases
Next == UNCHANGED c
Spec == Init /\ [][Next]_vars

----------------------------------------------------------------------------
(* C13 *)
PairLaws(a, b) ==
    LET T(op) == RTest(O(op, FALSE, FALSE, FALSE), a, b, RText)
        Tr(op) == RTest(O(op, FALSE, FALSE, FALSE), b, a, RText)
    IN /\ T("Embeds") <=> Tr("Embedded")
       /\ T("Before") <=> Tr("After")
       /\ \A ws \in BOOLEAN : RTest(O("Precedes", FALSE, FALSE, ws), a, b, RText) <=> RTest(O("Succeeds", FALSE, FALSE, ws), b, a, RText)
       /\ T("Equals") <=> Tr("Equals")
       /\ T("Overlaps") <=> Tr("Overlaps")
       /\ T("Equals") => (T("Embeds") /\ T("Embedded") /\ T("SameBegin") /\ T("SameEnd"))
       /\ T("Equals") <=> (a = b)
       /\ (a[1] < a[2] /\ b[1] < b[2]) => (T("Overlaps") <=> (a[1] < b[2] /\ b[1] < a[2]))
       /\ \A op \in Ops : \A al \in BOOLEAN : \A ws \in BOOLEAN :
            Test1(O(op, al, TRUE, ws), a, b, RText) = ~Test1(O(op, al, FALSE, ws), a, b, RText)
       \* singleton sets behave as their members, for every modifier combination
       /\ \A op \in Ops : \A al \in BOOLEAN : \A neg \in BOOLEAN : \A ws \in BOOLEAN :
            SetTest(O(op, al, neg, ws), {a}, {b}, RText) = Test1(O(op, al, neg, ws), a, b, RText)

SetLaws(SA, SB) ==
    LET S(op, al) == SetTest(O(op, al, FALSE, FALSE), SA, SB, RText)
        Sr(op, al) == SetTest(O(op, al, FALSE, FALSE), SB, SA, RText)
    IN /\ \A al \in BOOLEAN : S("Embeds", al) <=> Sr("Embedded", al)
       /\ S("Before", TRUE) <=> Sr("After", TRUE)
       /\ \A ws \in BOOLEAN : SetTest(O("Precedes", TRUE, FALSE, ws), SA, SB, RText) <=> SetTest(O("Succeeds", TRUE, FALSE, ws), SB, SA, RText)
       /\ S("Equals", FALSE) <=> Sr("Equals", FALSE)
       /\ S("Equals", FALSE) <=> (SA = SB)
       /\ S("Overlaps", TRUE) <=> Sr("Overlaps", TRUE)
       /\ S("Equals", FALSE) => (S("Embeds", FALSE) /\ S("Embedded", FALSE) /\ S("SameBegin", FALSE) /\ S("SameEnd", FALSE))
       /\ \A op \in Ops : \A al \in BOOLEAN : \A ws \in BOOLEAN :
            SetTest(O(op, al, TRUE, ws), SA, SB, RText) = ~SetTest(O(op, al, FALSE, ws), SA, SB, RText)
       \* `all` is at least as strong as the plain form for the quantified operators
       /\ \A op \in {"Overlaps", "Embeds", "Embedded", "Before", "After"} : S(op, TRUE) => S(op, FALSE)

(* C06: related text under a negated operator is the complement within the known selections (minus the reference) *)
RelatedLaws(SA, SB) ==
    LET st == [res |-> << [id |-> "r", alive |-> TRUE, text |-> RText, tsel |-> SortRanges(SB)] >>, sets |-> <<>>, anns |-> <<>>,
               idm |-> [res |-> {<<"r", 1>>}, set |-> {}, ann |-> {}], ix |-> EmptyIx]
        ref == SortRanges(SA)
        R(o) == Range(RelatedTextExpected(st, [res |-> ByH(1), A |-> ref, o |-> o]).ranges)
    IN \A op \in Ops \ {"Equals"} : \A al \in BOOLEAN :
          /\ R(O(op, al, FALSE, FALSE)) \cap R(O(op, al, TRUE, FALSE)) = {}
          /\ R(O(op, al, FALSE, FALSE)) \cup R(O(op, al, TRUE, FALSE)) = SB \ SA

RelInv == CASE c.k = "pair" -> PairLaws(c.a, c.b)
            [] c.k = "sets" -> SetLaws(c.sa, c.sb) /\ RelatedLaws(c.sa, c.sb)
            [] OTHER -> TRUE

----------------------------------------------------------------------------
(* C04 *)
OffInv ==
    CASE c.k = "report" ->
           (c.cb <= c.ce) =>
             \A b \in c.cb..c.ce : \A e \in b..c.ce : \A m \in 0..3 :
               LET o == Report(c.cb, c.ce, b, e, m)
               IN /\ OffsetWF(o) /\ OffValid(c.ce - c.cb, o) /\ ModeOf(o) = m
                  /\ ResolveIn(c.cb, c.ce, o) = <<b, e>>
      [] c.k = "valid" ->
           \A bk \in {"B", "E"} : \A ek \in {"B", "E"} : \A bv \in (-N - 2)..(N + 2) : \A ev \in (-N - 2)..(N + 2) :
             LET o == Off(bk, bv, ek, ev)
             IN /\ OffValid(c.len, o) =>
                     LET r == ResolveIn(0, c.len, o) IN 0 <= r[1] /\ r[1] <= r[2] /\ r[2] <= c.len
                /\ (~OffValid(c.len, o)) =>
                     \/ ~CursorWF(bk, bv) \/ ~CursorWF(ek, ev)
                     \/ LET r == ResolveIn(0, c.len, o) IN r[1] < 0 \/ r[1] > r[2] \/ r[2] > c.len
      [] OTHER -> TRUE

----------------------------------------------------------------------------
(* C07 / C12 *)
TextInv ==
    c.k = "text" =>
      LET t == c.t
          n == Len(t)
      IN /\ \A p \in 0..n : ByteToChar(t, ByteOf(t, p)) = [ok |-> TRUE, v |-> p]
         /\ \A b \in 0..(ByteLen(t) + 1) : ByteToChar(t, b).ok => ByteOf(t, ByteToChar(t, b).v) = b
         /\ \A p \in 0..(n - 1) : ByteOf(t, p) < ByteOf(t, p + 1)
         /\ ~Utf8Byte(t, n + 1).ok /\ ~ByteToChar(t, ByteLen(t) + 1).ok
         /\ \A cb \in 0..n : \A ce \in cb..n :
              /\ \A d \in Alphabet :
                   LET ps == Split(t, cb, ce, <<d>>)
                       ms == FindAll(t, cb, ce, <<d>>)
                   IN \* the pieces and the delimiters together partition the searched range
                      /\ ps[1][1] = cb /\ ps[Len(ps)][2] = ce
                      /\ Len(ps) = Len(ms) + 1
                      /\ \A i \in DOMAIN ms : ps[i][2] = ms[i][1] /\ ps[i + 1][1] = ms[i][2] /\ SubSeq(t, ms[i][1] + 1, ms[i][2]) = <<d>>
                      /\ \A i \in DOMAIN ps : \A j \in (ps[i][1] + 1)..ps[i][2] : t[j] # d
                      /\ FindAllNoCase(t, cb, ce, <<d>>) = FindAll(LowerSeq(t), cb, ce, LowerSeq(<<d>>))
              /\ \A kn \in SUBSET RangesN :
                   (Cardinality(kn) <= 2 /\ \A r \in kn : r[2] <= n) =>
                     LET seg == Segmentation(SortRanges(kn), cb, ce)
                     IN /\ Partitions(seg, cb, ce)
                        /\ (cb < ce => seg # <<>>)
                        \* cuts exactly at the begins/ends of known selections inside the range
                        /\ {seg[i][2] : i \in 1..(Len(seg) - 1)} = {p \in (cb + 1)..(ce - 1) : \E r \in kn : r[1] = p \/ r[2] = p}

Inv == CASE Law = "relations" -> RelInv [] Law = "offsets" -> OffInv [] OTHER -> TextInv
=============================================================================
