------------------------------ MODULE MC_Store ------------------------------
(* Bounded instance of StamStore: the state machine whose actions are the  *)
(* public mutating calls, driven by a menu of arguments computed from the  *)
(* current state.  Used in three ways (one source of truth):               *)
(*   MC_Store.cfg    exhaustive BFS, invariants StateOK + action props      *)
(*   Gen_Store_*.cfg the same Next with a history variable; every behaviour *)
(*                   of depth D is printed as one JSON line (input for the  *)
(*                   conformance harness)                                   *)
(*   -simulate       random walks through the same Next                     *)
EXTENDS StamAll, StamQuery, Json, SequencesExt

CONSTANTS MaxRes, MaxSets, MaxAnns, MaxData, MaxKeys, Depth, Scenario, Size, Prelude, Reads, DevShift, EmitAll, P1, P2

VARIABLES st, hist

vars == <<st, hist>>

TB(kind, a, b, off) == [kind |-> kind, a |-> a, b |-> b, off |-> off, subs |-> <<>>]
Complex(kind, subs) == [kind |-> kind, a |-> NoRef, b |-> NoRef, off |-> NoOffset, subs |-> subs]
NoTarget == TB("None", NoRef, NoRef, NoOffset)
DB(set, key, id, val) == [set |-> set, key |-> key, id |-> id, val |-> val]
StrVal(s) == [t |-> "str", s |-> s, n |-> 0, l |-> <<>>]
IntVal(n) == [t |-> "int", s |-> "", n |-> n, l |-> <<>>]

Small == Size = "s"
Texts == IF Size # "m" THEN {<<11, 12, 21>>} ELSE {<<11, 12, 21>>, <<13, 11>>}
ResIds == IF Size # "m" THEN {"r1"} ELSE {"r1", "r2"}
SetIds == {"s1"}
AnnIds == IF Size # "m" THEN {""} ELSE {"", "a1"}
TypedVal(t, n, l) == [t |-> t, s |-> "", n |-> n, l |-> l]
Vals == CASE Size = "s" -> {StrVal("v1")}
          [] Size = "v" -> {StrVal("v1"), IntVal(-7), TypedVal("float", 3, <<>>), TypedVal("bool", 1, <<>>), NullVal,
                            TypedVal("datetime", 61, <<>>), TypedVal("list", 0, <<IntVal(1), StrVal("v2"), TypedVal("bool", 0, <<>>)>>)}
          \* "w": values of one key that only a loose comparison would conflate (C10): numbers and the strings that read as them,
          \* booleans and yes-words, null and a list
          [] Size = "w" -> {StrVal("v1"), StrVal("1"), IntVal(1), StrVal("1.5"), TypedVal("float", 3, <<>>), TypedVal("float", 2, <<>>), TypedVal("bool", 0, <<>>),
                            TypedVal("bool", 1, <<>>), StrVal("yes"), NullVal, TypedVal("list", 0, <<IntVal(1), StrVal("v2")>>), TypedVal("list", 0, <<>>)}
          \* "i": strings that look like IRIs (with backslashes / control characters in their concrete form)
          [] Size = "i" -> {StrVal("v1"), StrVal("iri1"), StrVal("iri2"), StrVal("iri3"), StrVal("iri4"), StrVal("ctl1"), StrVal("ctl2")}
          [] OTHER -> {StrVal("v1"), IntVal(1)}

\* references to live items, by handle and (when they have one) by id
RefsTo(items, live) == {ByH(h) : h \in live} \cup {ById(items[h].id) : h \in {x \in live : items[x].id # ""}}

ResRefs == RefsTo(st.res, LiveRes(st)) \cup (IF Scenario = "remove" THEN {ByTemp("R", h - 1) : h \in LiveRes(st)} ELSE {})
SetRefs == RefsTo(st.sets, LiveSets(st)) \cup (IF Scenario = "remove" THEN {ByTemp("S", h - 1) : h \in LiveSets(st)} ELSE {})
\* (removals also address items through their temporary identifier, whether or not they have a public one)
AnnRefs == {ByH(h) : h \in LiveAnns(st)} \cup (IF Scenario = "tempish" THEN {ById(st.anns[h].id) : h \in {x \in LiveAnns(st) : st.anns[x].id # ""}} ELSE {})
           \cup (IF Scenario = "remove" THEN {ByTemp("A", h - 1) : h \in LiveAnns(st)} ELSE {})

OffMenu == IF Small THEN {Off("B", 0, "B", 1), Off("B", 0, "E", 0)}
           ELSE {Off("B", 0, "B", 1), Off("B", 1, "B", 2), Off("B", 0, "E", 0), Off("E", -1, "E", 0), Off("B", 2, "B", 2)}
\* (an end beyond the text, from a begin that is and one that is not already a boundary of a known selection)
BadOffMenu == IF Small THEN {Off("B", 2, "B", 1), Off("E", 1, "E", 0), Off("B", 0, "B", 9), Off("B", 1, "B", 9), Off("B", 2, "B", 9)}
              ELSE {Off("B", 2, "B", 1), Off("B", 0, "B", 9), Off("B", 1, "B", 9), Off("E", 1, "E", 0), Off("E", -9, "B", 1)}
RelOffMenu == IF Small THEN {Off("B", 0, "E", 0)} ELSE {Off("B", 0, "E", 0), Off("B", 0, "B", 1), Off("E", -1, "E", 0)}

SimpleTargets ==
    {TB("Text", r, NoRef, o) : r \in {ByH(h) : h \in LiveRes(st)}, o \in OffMenu}
    \cup {TB("Res", r, NoRef, NoOffset) : r \in ResRefs}
    \cup {TB("Ann", x, NoRef, NoOffset) : x \in AnnRefs}
    \cup {TB("Ann", ByH(x), NoRef, o) : x \in {y \in LiveAnns(st) : HasSingleText(st.anns[y])}, o \in RelOffMenu}
    \cup {TB("Set", s, NoRef, NoOffset) : s \in SetRefs}
    \cup UNION {{TB("Key", ByH(s), ByH(k), NoOffset) : k \in {k \in 1..Len(st.sets[s].keys) : st.sets[s].keys[k].alive}} : s \in LiveSets(st)}
    \cup UNION {{TB("Data", ByH(s), ByH(d), NoOffset) : d \in {d \in 1..Len(st.sets[s].data) : st.sets[s].data[d].alive}} : s \in LiveSets(st)}

\* sub-selector material for complex selectors (text parts given in reverse textual order on purpose)
SubPairs ==
    LET R == {ByH(h) : h \in LiveRes(st)}
        A == AnnRefs
    IN {<<TB("Text", r, NoRef, Off("B", 1, "B", 2)), TB("Text", r, NoRef, Off("B", 0, "B", 1))>> : r \in R}
       \cup {<<TB("Text", r, NoRef, Off("B", 0, "B", 1)), TB("Res", r, NoRef, NoOffset)>> : r \in R}
       \* a text part next to two references to annotations (consecutive ones are kept as an internal ranged selector)
       \cup {<<TB("Text", r, NoRef, Off("B", 0, "B", 1)), TB("Ann", x, NoRef, NoOffset), TB("Ann", y, NoRef, NoOffset)>> : r \in R, x \in A, y \in A}
       \* three text parts with mixed alignment, in and out of textual order (candidates for the internal ranged selector)
       \cup UNION {{<<TB("Text", r, NoRef, Off("B", 0, "B", 1)), TB("Text", r, NoRef, Off("B", 1, "B", 2)), TB("Text", r, NoRef, Off("E", -1, "E", 0))>>,
                    <<TB("Text", r, NoRef, Off("E", -1, "E", 0)), TB("Text", r, NoRef, Off("B", 0, "B", 1)), TB("Text", r, NoRef, Off("B", 1, "B", 2))>>,
                    <<TB("Text", r, NoRef, Off("B", 1, "B", 2)), TB("Text", r, NoRef, Off("E", -1, "E", 0)), TB("Text", r, NoRef, Off("B", 0, "B", 1))>>,
                    <<TB("Text", r, NoRef, Off("B", 0, "B", 1)), TB("Text", r, NoRef, Off("B", 1, "E", -1)), TB("Text", r, NoRef, Off("B", 2, "B", 3))>>} : r \in R}
       \cup {<<TB("Ann", x, NoRef, NoOffset), TB("Ann", y, NoRef, NoOffset)>> : x \in A, y \in A}
       \cup {<<TB("Ann", ByH(x), NoRef, Off("B", 0, "E", 0)), TB("Ann", ByH(y), NoRef, Off("B", 0, "E", 0))>> :
               x \in {z \in LiveAnns(st) : HasSingleText(st.anns[z])}, y \in {z \in LiveAnns(st) : HasSingleText(st.anns[z])}}
       \cup {<<TB("Ann", x, NoRef, NoOffset), TB("Text", r, NoRef, Off("B", 0, "B", 1))>> : x \in A, r \in R}
       \cup UNION {{<<TB("Res", r, NoRef, NoOffset), TB("Key", ByH(s), ByH(k), NoOffset)>> : r \in R, k \in {k \in 1..Len(st.sets[s].keys) : st.sets[s].keys[k].alive}} : s \in LiveSets(st)}
       \cup UNION {{<<TB("Text", r, NoRef, Off("B", 0, "B", 1)), TB("Data", ByH(s), ByH(d), NoOffset)>> : r \in R, d \in {d \in 1..Len(st.sets[s].data) : st.sets[s].data[d].alive}} : s \in LiveSets(st)}

\* pairs of key / data / annotation sub-selectors (the canonical order of a Multi/Composite selector must be total)
SubPairsMeta ==
    LET KS == UNION {{TB("Key", ByH(s), ByH(k), NoOffset) : k \in {k \in 1..Len(st.sets[s].keys) : st.sets[s].keys[k].alive}} : s \in LiveSets(st)}
        DS == UNION {{TB("Data", ByH(s), ByH(d), NoOffset) : d \in {d \in 1..Len(st.sets[s].data) : st.sets[s].data[d].alive}} : s \in LiveSets(st)}
        AS == {TB("Ann", x, NoRef, NoOffset) : x \in AnnRefs}
    IN {<<x, y>> : x \in KS, y \in KS} \cup {<<x, y>> : x \in DS, y \in DS} \cup {<<x, y>> : x \in DS, y \in KS}
       \cup {<<x, y>> : x \in KS, y \in AS} \cup {<<x, y>> : x \in DS, y \in AS}
ComplexTargets == {Complex(k, p) : k \in {"Multi", "Composite", "Directional"}, p \in (IF Scenario = "complexmeta" THEN SubPairsMeta ELSE {})} \cup {Complex(k, p) : k \in {"Multi", "Composite", "Directional"}, p \in {q \in SubPairs : q[1] # q[2]}}

BadTargets ==
    {NoTarget, TB("Res", ById("nope"), NoRef, NoOffset), TB("Ann", ByH(99), NoRef, NoOffset),
     TB("Set", ById("nope"), NoRef, NoOffset),
     \* keys and data items that do not resolve (in a known and in an unknown set)
     TB("Key", ById("s1"), ById("nokey"), NoOffset), TB("Key", ById("nope"), ById("k1"), NoOffset),
     TB("Data", ById("s1"), ById("nodata"), NoOffset), TB("Data", ById("s1"), ByH(99), NoOffset), TB("Data", ById("nope"), ById("d1"), NoOffset)}
    \cup {TB("Text", ByH(h), NoRef, o) : h \in LiveRes(st), o \in BadOffMenu}
    \cup {Complex("Multi", <<Complex("Multi", <<TB("Res", r, NoRef, NoOffset)>>)>>) : r \in ResRefs}
    \cup {Complex(k, <<>>) : k \in {"Multi", "Composite", "Directional"}}

DataMenu ==
    {<<>>}
    \cup {<<DB(ById(s), ById(k), NoRef, v)>> : s \in SetIds, k \in {"k1", "k2"}, v \in Vals}
    \cup {<<DB(ById(s), ById("k1"), ById("d1"), StrVal("v1"))>> : s \in SetIds}
    \cup {<<DB(ById(s), ById("k1"), NoRef, StrVal("v1")), DB(ById(s), ById("k2"), NoRef, StrVal("v1"))>> : s \in SetIds}
BadDataMenu == {<<DB(ById("s1"), NoRef, NoRef, StrVal("v1"))>>, <<DB(ById("s1"), ByH(9), NoRef, StrVal("v1"))>>}

\* C04: every cursor pair (in range, out of range, inverted, zero-width, positive end-aligned) against every
\* resource and relative to every annotation with a single text selection (declared below: Cursors, OffsOver)
AnnTextLen1(x) == LET lf == st.anns[x].leaves[1] IN LeafRange(st, lf)[2] - LeafRange(st, lf)[1]
OffsetTargets ==
    LET Cs(len) == {<<"B", v>> : v \in 0..(len + 1)} \cup {<<"E", -v>> : v \in 0..(len + 1)} \cup {<<"E", 1>>}
        Os(len) == {Off(b[1], b[2], e[1], e[2]) : b \in Cs(len), e \in Cs(len)}
    IN UNION {{TB("Text", ByH(r), NoRef, o) : o \in Os(Len(st.res[r].text))} : r \in LiveRes(st)}
       \cup UNION {{TB("Ann", ByH(x), NoRef, o) : o \in Os(AnnTextLen1(x))} : x \in {y \in LiveAnns(st) : HasSingleText(st.anns[y])}}

\* C06: known selections are added in ascending (textual) order only, so that every *set* of known selections of
\* the resource is reached exactly once
RangesOf(n) == {r \in (0..n) \X (0..n) : r[1] <= r[2]}
RangeBefore(x, y) == x[1] < y[1] \/ (x[1] = y[1] /\ x[2] < y[2])
RelatedTargets ==
    UNION {{TB("Text", ByH(r), NoRef, Off("B", x[1], "B", x[2])) :
              x \in {y \in RangesOf(Len(st.res[r].text)) : \A i \in DOMAIN st.res[r].tsel : RangeBefore(st.res[r].tsel[i], y)}} : r \in LiveRes(st)}

\* C01: complex selectors over annotations with relative offsets (whole as 0..len, whole as begin..end-aligned 0, parts)
RelSubOffs(x) == LET len == AnnTextLen1(x) IN {Off("B", 0, "B", len), Off("B", 0, "B", 1), Off("B", 1, "B", len), Off("B", 0, "E", 0)}
RelComplexTargets ==
    LET A == {y \in LiveAnns(st) : HasSingleText(st.anns[y])}
        Subs(x) == {TB("Ann", ByH(x), NoRef, o) : o \in RelSubOffs(x)}
        K == {"Multi", "Composite", "Directional"}
    IN UNION {UNION {{Complex(k, <<sx, sy>>) : k \in K, sx \in Subs(x), sy \in Subs(y)} : y \in A \ {x}} : x \in A}
       \cup UNION {UNION {UNION {{Complex(k, <<sx, sy, sz>>) : k \in K, sx \in Subs(x), sy \in Subs(y), sz \in Subs(z)} :
                                   z \in {w \in A : w = y + 1}} : y \in {w \in A : w = x + 1}} : x \in A}
AnnotateMenu ==
    CASE Scenario = "related" -> {[id |-> "", target |-> t, data |-> <<>>] : t \in RelatedTargets}
      [] Scenario = "offsets" -> {[id |-> "", target |-> t, data |-> <<>>] : t \in OffsetTargets}
      [] Scenario = "complexrel" -> {[id |-> "", target |-> t, data |-> <<>>] : t \in RelComplexTargets}
      [] Scenario = "core" ->
           {[id |-> i, target |-> t, data |-> d] : i \in AnnIds, t \in SimpleTargets, d \in DataMenu}
      [] Scenario \in {"complex", "complexmeta"} ->
           {[id |-> "", target |-> t, data |-> <<>>] : t \in (IF Scenario = "complex" THEN SimpleTargets ELSE {}) \cup ComplexTargets}
      [] Scenario = "fail" ->
           {[id |-> i, target |-> t, data |-> d] : i \in AnnIds, t \in BadTargets, d \in {<<>>} \cup {x \in DataMenu : Len(x) = 1 /\ x[1].id.by = "none"}}
           \cup {[id |-> i, target |-> t, data |-> d] : i \in AnnIds, t \in {x \in SimpleTargets : x.kind \in {"Text", "Res"}}, d \in BadDataMenu \cup {<<>>}}
      [] OTHER -> {[id |-> i, target |-> t, data |-> d] : i \in AnnIds, t \in SimpleTargets \cup ComplexTargets, d \in DataMenu}

\* C14, batches: two or three annotations, at most one of them wrong (unknown resource, offset beyond the text, an
\* identifier in use in the store or earlier in the same batch, data with an unknown or missing key, a nested complex selector)
BatchItems ==
    LET txt(b, e) == TB("Text", ById("r1"), NoRef, Off("B", b, "B", e))
        dk(k, v) == <<DB(ById("s1"), ById(k), NoRef, StrVal(v))>>
        good == {[id |-> "b1", target |-> txt(0, 1), data |-> dk("k1", "v1")],
                 [id |-> "", target |-> TB("Ann", ById("b1"), NoRef, NoOffset), data |-> dk("k3", "v3")],
                 [id |-> "b2", target |-> TB("Res", ById("r1"), NoRef, NoOffset), data |-> <<>>],
                 [id |-> "b5", target |-> txt(1, 3), data |-> <<>>]}
        bad == {[id |-> "b3", target |-> TB("Text", ById("nope"), NoRef, Off("B", 0, "B", 1)), data |-> <<>>],
                [id |-> "b3", target |-> txt(2, 9), data |-> dk("k4", "v4")],
                [id |-> "a1", target |-> txt(1, 2), data |-> <<>>],
                [id |-> "b1", target |-> txt(2, 3), data |-> <<>>],
                [id |-> "b4", target |-> txt(0, 2), data |-> <<DB(ById("s1"), ById("k5"), NoRef, StrVal("v5")), DB(ById("s1"), NoRef, NoRef, StrVal("v1"))>>],
                [id |-> "b6", target |-> Complex("Multi", <<Complex("Multi", <<txt(0, 1), txt(1, 2)>>), txt(2, 3)>>), data |-> <<>>],
                \* no target at all: in a file this is already rejected when the document is read, before anything is added
                [id |-> "b7", target |-> NoTarget, data |-> dk("k6", "v6")]}
    IN [good |-> good, bad |-> bad]
Batches ==
    LET g == BatchItems.good
        b == BatchItems.bad
        all == g \cup b
    IN {<<x, y>> : x \in all, y \in all} \cup {<<x, y, z>> : x \in g, y \in all, z \in g} \cup {<<x, y, z>> : x \in g, y \in g, z \in b}

\* a fixed prelude so that the depth budget of generated behaviours is spent on interesting steps
PreludeOps ==
    LET addres == [ev |-> "AddResource", a |-> [id |-> "r1", text |-> <<11, 12, 21>>]]
        addset == [ev |-> "AddDataset", a |-> [id |-> "s1"]]
        ann(i, t, d) == [ev |-> "Annotate", a |-> [id |-> i, target |-> t, data |-> d]]
        txt(b, e) == TB("Text", ById("r1"), NoRef, Off("B", b, "B", e))
        d1 == <<DB(ById("s1"), ById("k1"), NoRef, StrVal("v1"))>>
        d2 == <<DB(ById("s1"), ById("k2"), NoRef, StrVal("v1"))>>
    IN CASE Prelude = 0 -> <<>>
         [] Prelude = 1 -> <<addres, addset>>
         [] Prelude = 2 -> <<addres, addset, ann("a1", txt(0, 1), d1)>>
         [] Prelude = 3 -> <<addres, addset, ann("a1", txt(0, 1), d1), ann("", TB("Ann", ById("a1"), NoRef, NoOffset), d2)>>
         [] Prelude = 4 -> <<addres, addset, ann("a1", txt(0, 1), d1), ann("a2", txt(1, 2), d1 \o d2),
                       ann("", Complex("Multi", <<TB("Ann", ById("a1"), NoRef, NoOffset), TB("Ann", ById("a2"), NoRef, NoOffset)>>), <<>>)>>
         \* 5: items shared by several annotations, two resources with text annotations
         [] Prelude = 5 -> <<addres, [ev |-> "AddResource", a |-> [id |-> "r2", text |-> <<13, 11>>]], addset,
                             ann("a1", txt(0, 3), d1), ann("a2", txt(0, 1), d1), ann("", txt(0, 3), d1 \o d2),
                             ann("", TB("Res", ById("r1"), NoRef, NoOffset), d1),
                             ann("", TB("Text", ById("r2"), NoRef, Off("B", 0, "B", 1)), d2)>>
         \* 7: offsets: 1-4 byte characters, an empty text, a chain of annotation-relative offsets of depth 3
         [] Prelude = 7 -> <<[ev |-> "AddResource", a |-> [id |-> "r1", text |-> <<11, 12, 13, 14>>]],
                             [ev |-> "AddResource", a |-> [id |-> "r2", text |-> <<>>]],
                             ann("a1", TB("Text", ById("r1"), NoRef, Off("B", 1, "B", 4)), <<>>),
                             ann("a2", TB("Ann", ById("a1"), NoRef, Off("B", 1, "E", 0)), <<>>),
                             ann("a3", TB("Ann", ById("a2"), NoRef, Off("E", -2, "E", -1)), <<>>),
                             ann("a4", TB("Text", ById("r2"), NoRef, Off("B", 0, "E", 0)), <<>>)>>
         \* 8: one 24-character text with 1-4 byte characters (milestones of every interval fall inside it)
         [] Prelude = 8 -> <<[ev |-> "AddResource", a |-> [id |-> "r1", text |-> <<11, 12, 13, 14, 21, 22, 23, 24, 31, 32, 33, 41,
                                                                                   42, 51, 61, 71, 81, 11, 12, 13, 14, 21, 22, 23>>]],
                             ann("a1", TB("Text", ById("r1"), NoRef, Off("B", 3, "B", 9)), <<>>)>>
         \* 9: relations / related text: one text of P1 characters with whitespace inside
         [] Prelude = 9 -> <<[ev |-> "AddResource", a |-> [id |-> "r1", text |-> SubSeq(<<11, 31, 33, 21, 51, 11>>, 1, P1)]]>>
         \* 10: two datasets; annotations whose data come from both, in runs (s1 s1 s2), alternating (s1 s2 s1) and with ids
         [] Prelude = 10 -> LET e(s, k, i, v) == DB(ById(s), ById(k), i, StrVal(v)) IN
                            <<addres, addset, [ev |-> "AddDataset", a |-> [id |-> "s2"]],
                              ann("a1", txt(0, 1), <<e("s1", "k1", NoRef, "v1"), e("s1", "k2", NoRef, "v2"), e("s2", "k1", NoRef, "v1")>>),
                              ann("", txt(1, 2), <<e("s1", "k1", ById("d1"), "v3"), e("s2", "k1", ById("d1"), "v4"), e("s1", "k2", NoRef, "v2")>>),
                              ann("a3", TB("Ann", ById("a1"), NoRef, NoOffset), <<e("s2", "k2", NoRef, "v1"), e("s2", "k1", NoRef, "v1"), e("s1", "k1", NoRef, "v1")>>),
                              ann("", TB("Data", ById("s2"), ByH(1), NoOffset), <<e("s1", "k1", NoRef, "v1")>>)>>
         \* 11: text validation: a text of 44 characters (Auto switches to checksums at 40), complex and relative targets
         [] Prelude = 11 -> LET long == [i \in 1..44 |-> <<11, 12, 13, 14, 21, 31>>[1 + (i % 6)]] IN
                            <<[ev |-> "AddResource", a |-> [id |-> "r1", text |-> long]],
                              [ev |-> "AddResource", a |-> [id |-> "r2", text |-> <<11, 21, 51>>]],
                              addset,
                              ann("a1", TB("Text", ById("r1"), NoRef, Off("B", 0, "E", 0)), d1),
                              ann("a2", TB("Text", ById("r1"), NoRef, Off("B", 2, "B", 5)), <<>>),
                              ann("", Complex("Multi", <<TB("Text", ById("r2"), NoRef, Off("B", 2, "B", 3)), TB("Text", ById("r2"), NoRef, Off("B", 0, "B", 1))>>), <<>>),
                              ann("a4", TB("Ann", ById("a2"), NoRef, Off("B", 1, "E", 0)), <<>>),
                              ann("", TB("Res", ById("r2"), NoRef, NoOffset), d2),
                              ann("", TB("Text", ById("r2"), NoRef, Off("B", 1, "B", 1)), <<>>),
                              \* the same characters as a2, elsewhere in the text (shared validation data)
                              ann("a7", TB("Text", ById("r1"), NoRef, Off("B", 8, "B", 11)), <<>>)>>
         \* 12: complex transpositions between texts sharing three fragments "ab" "cd" "ef" (the first two adjacent in r1,
         \*     re-ordered in r2), a three-sided one and a simple one
         \*     r1 = x a b c d y e f     r2 = c d a b z e f      r3 = a b c d e f
         [] Prelude = 12 -> LET t(r, b, e) == TB("Text", ById(r), NoRef, Off("B", b, "B", e))
                                dir(s) == Complex("Directional", s)
                                d3 == <<DB(ById("s1"), ById("k1"), NoRef, StrVal("v1"))>> IN
                            <<[ev |-> "AddResource", a |-> [id |-> "r1", text |-> <<71, 11, 21, 51, 12, 31, 13, 14>>]],
                              [ev |-> "AddResource", a |-> [id |-> "r2", text |-> <<51, 12, 11, 21, 41, 13, 14>>]],
                              [ev |-> "AddResource", a |-> [id |-> "r3", text |-> <<11, 21, 51, 12, 13, 14>>]],
                              ann("sideA", dir(<<t("r1", 1, 3), t("r1", 3, 5), t("r1", 6, 8)>>), <<>>),
                              ann("sideB", dir(<<t("r2", 2, 4), t("r2", 0, 2), t("r2", 5, 7)>>), <<>>),
                              ann("sideC", dir(<<t("r3", 0, 2), t("r3", 2, 4), t("r3", 4, 6)>>), <<>>),
                              ann("T2", dir(<<TB("Ann", ById("sideA"), NoRef, NoOffset), TB("Ann", ById("sideB"), NoRef, NoOffset)>>), <<>>),
                              ann("T3", dir(<<TB("Ann", ById("sideA"), NoRef, NoOffset), TB("Ann", ById("sideB"), NoRef, NoOffset), TB("Ann", ById("sideC"), NoRef, NoOffset)>>), <<>>),
                              ann("S1", dir(<<t("r1", 1, 5), t("r3", 0, 4)>>), <<>>),
                              ann("w1", t("r1", 1, 2), d3),
                              ann("w2", dir(<<t("r1", 2, 4), t("r1", 6, 7)>>), d3),
                              \* sources with one fragment inside the sides and one outside / sticking out (must be refused)
                              ann("w3", dir(<<t("r1", 1, 3), t("r1", 5, 6)>>), <<>>),
                              ann("w4", dir(<<t("r1", 1, 3), t("r1", 4, 6)>>), <<>>)>>
         \* 13: three overlapping annotations with consecutive handles on a five-character text (material for complex
         \*     selectors over annotations with relative offsets, which the library range-compresses)
         [] Prelude = 13 -> <<[ev |-> "AddResource", a |-> [id |-> "r1", text |-> <<11, 12, 13, 14, 21>>]], addset,
                              ann("a1", txt(0, 3), <<>>), ann("a2", txt(1, 4), <<>>), ann("a3", txt(2, 5), <<>>)>>
         \* 14: annotations that list the same data item twice (and a third one on top of the first)
         [] Prelude = 14 -> <<addres, addset, ann("a1", txt(0, 1), d1 \o d1), ann("a2", txt(1, 2), d1 \o d2 \o d1),
                              ann("a3", TB("Ann", ById("a1"), NoRef, NoOffset), d2 \o d2), ann("", txt(0, 1), d2)>>
         \* 15: public identifiers that begin like a temporary identifier of their own kind but are not one
         [] Prelude = 15 -> <<[ev |-> "AddResource", a |-> [id |-> "!Rx", text |-> <<11, 12, 21>>]], addres,
                              [ev |-> "AddDataset", a |-> [id |-> "!Sx"]], addset,
                              ann("!Ax", TB("Text", ById("!Rx"), NoRef, Off("B", 0, "B", 1)),
                                  <<DB(ById("!Sx"), ById("!Kx"), ById("!Dx"), StrVal("v1"))>>),
                              ann("a1", txt(0, 1), d1),
                              ann("!A", TB("Ann", ById("!Ax"), NoRef, NoOffset), <<DB(ById("!Sx"), ById("!Kx"), NoRef, StrVal("v2"))>>)>>
         \* 16: two resources with different text and annotations at the same offsets (same per-resource selection handles)
         [] Prelude = 16 -> <<[ev |-> "AddResource", a |-> [id |-> "r1", text |-> <<11, 12, 13, 14, 21>>]],
                              [ev |-> "AddResource", a |-> [id |-> "r2", text |-> <<21, 22, 23, 24, 31>>]], addset,
                              ann("a1", txt(0, 2), d1), ann("a2", TB("Text", ById("r2"), NoRef, Off("B", 0, "B", 2)), d1),
                              ann("a3", txt(1, 3), <<>>), ann("a4", TB("Text", ById("r2"), NoRef, Off("B", 1, "B", 3)), <<>>),
                              ann("a5", TB("Text", ById("r2"), NoRef, Off("B", 0, "B", 2)), d2)>>
         \* 17: references with nested parts: the selection with the greatest begin does not have the greatest end
         [] Prelude = 17 -> LET t(b, e) == TB("Text", ById("r1"), NoRef, Off("B", b, "B", e)) IN
                            <<[ev |-> "AddResource", a |-> [id |-> "r1", text |-> <<11, 21, 31, 11, 21, 51>>]],
                              ann("a1", t(0, 5), <<>>), ann("a2", t(1, 2), <<>>), ann("a3", t(2, 4), <<>>), ann("a4", t(4, 6), <<>>),
                              ann("a5", t(5, 6), <<>>), ann("a6", t(3, 5), <<>>),
                              ann("c1", Complex("Composite", <<t(0, 5), t(1, 2)>>), <<>>),
                              ann("c2", Complex("Multi", <<t(2, 4), t(0, 5), t(4, 6)>>), <<>>),
                              ann("c3", Complex("Directional", <<t(1, 2), t(0, 5)>>), <<>>),
                              ann("c4", Complex("Composite", <<t(0, 3), t(1, 2), t(2, 3)>>), <<>>)>>
         \* 18: a key that never had data, declared last, with an annotation on it and one on that annotation
         [] Prelude = 18 -> <<addres, addset, ann("a1", txt(0, 1), d1),
                              [ev |-> "AddKey", a |-> [set |-> ById("s1"), id |-> "k8"]],
                              [ev |-> "AddKey", a |-> [set |-> ById("s1"), id |-> "k9"]],
                              ann("m1", TB("Key", ById("s1"), ById("k9"), NoOffset), <<>>),
                              ann("m2", TB("Ann", ById("m1"), NoRef, NoOffset), <<>>),
                              ann("m3", TB("Key", ById("s1"), ById("k8"), NoOffset), d1)>>
         \* 19: one key with five data items (removals in any order must keep the key's row exact), another with one
         [] Prelude = 19 -> LET e(k, v) == DB(ById("s1"), ById(k), NoRef, StrVal(v)) IN
                            <<addres, addset, ann("a1", txt(0, 1), <<e("k1", "v1"), e("k1", "v2"), e("k1", "v3")>>),
                              ann("a2", txt(1, 2), <<e("k1", "v4"), e("k2", "v1"), e("k1", "v5")>>),
                              ann("a3", txt(0, 2), <<e("k1", "v2"), e("k1", "v5")>>)>>
         \* 20: complex selectors of every flavour (relative annotation parts, text parts, resource / dataset / key parts)
         [] Prelude = 20 -> LET t(b, e) == TB("Text", ById("r1"), NoRef, Off("B", b, "B", e)) IN
                            <<[ev |-> "AddResource", a |-> [id |-> "r1", text |-> <<11, 12, 13, 14, 21>>]], addset,
                              ann("a1", t(0, 3), d1), ann("a2", t(1, 4), d2), ann("a3", t(2, 5), <<>>),
                              ann("c1", Complex("Multi", <<TB("Ann", ById("a1"), NoRef, Off("B", 1, "B", 2)), TB("Ann", ById("a2"), NoRef, Off("B", 0, "E", 0))>>), <<>>),
                              ann("c2", Complex("Composite", <<t(0, 1), t(2, 3)>>), d1),
                              ann("c3", Complex("Directional", <<TB("Res", ById("r1"), NoRef, NoOffset), TB("Set", ById("s1"), NoRef, NoOffset),
                                                                 TB("Key", ById("s1"), ById("k1"), NoOffset), TB("Ann", ById("a3"), NoRef, NoOffset)>>), <<>>),
                              ann("c4", Complex("Directional", <<TB("Ann", ById("a3"), NoRef, Off("E", -2, "E", -1)), t(4, 5), TB("Ann", ById("a1"), NoRef, NoOffset)>>), d2)>>
         \* 21: data of the W3C Web Annotation vocabulary (exported as members of the annotation, not in its body)
         [] Prelude = 21 -> LET w(k, v) == DB(ById("WA"), ById(k), NoRef, StrVal(v)) IN
                            <<addres, addset, ann("a1", txt(0, 1), <<w("created", "v1")>> \o d1),
                              ann("a2", txt(1, 2), <<w("creator", "v2")>>),
                              ann("a3", txt(0, 2), <<w("motivation", "v1"), w("created", "v3")>>),
                              ann("a4", TB("Res", ById("r1"), NoRef, NoOffset), <<w("created", "v1")>> \o d2),
                              ann("a5", Complex("Multi", <<txt(0, 1), txt(2, 3)>>), d1 \o <<w("creator", "v1")>>)>>
         \* 22: equal non-string values under different explicit identifiers (they are not de-duplicated)
         [] Prelude = 22 -> LET e(i, v) == DB(ById("s1"), ById("k1"), ById(i), v) IN
                            <<addres, addset,
                              ann("a1", txt(0, 1), <<e("d1", IntVal(1)), e("d3", TypedVal("bool", 1, <<>>)), e("d5", NullVal), e("d7", TypedVal("float", 3, <<>>))>>),
                              ann("a2", txt(1, 2), <<e("d2", IntVal(1)), e("d4", TypedVal("bool", 1, <<>>)), e("d6", NullVal), e("d8", TypedVal("float", 3, <<>>))>>),
                              ann("a3", txt(0, 2), <<e("d9", TypedVal("bool", 0, <<>>)), DB(ById("s1"), ById("k2"), ById("d10"), IntVal(1)), e("d11", TypedVal("bool", 0, <<>>))>>)>>
         \* 23: complex selectors over annotations with whole-target offsets in every alignment, whose members become consecutive
         \*     when the annotation between them is removed and the store is reloaded (range compression on load must be lossless)
         [] Prelude = 23 -> LET sub(i, o) == TB("Ann", ById(i), NoRef, o) IN
                            <<[ev |-> "AddResource", a |-> [id |-> "r1", text |-> <<11, 12, 13, 14, 21>>]], addset,
                              ann("a1", txt(0, 3), <<>>), ann("a2", txt(1, 4), <<>>), ann("a3", txt(2, 5), <<>>),
                              ann("m1", Complex("Multi", <<sub("a1", Off("B", 0, "E", 0)), sub("a3", Off("B", 0, "E", 0))>>), <<>>),
                              ann("m2", Complex("Composite", <<sub("a1", Off("E", -3, "E", 0)), sub("a3", Off("E", -3, "E", 0))>>), d1),
                              ann("m3", Complex("Directional", <<sub("a1", Off("B", 0, "B", 3)), sub("a3", Off("B", 0, "B", 3))>>), <<>>),
                              ann("m4", Complex("Multi", <<sub("a1", Off("B", 1, "E", 0)), sub("a3", Off("E", -3, "B", 3))>>), <<>>)>>
         \* 6: metadata annotations on keys/data/sets and annotations on annotations (chain + relative offset)
         [] OTHER -> <<addres, addset, ann("a1", txt(0, 2), d1),
                       ann("", TB("Key", ById("s1"), ById("k1"), NoOffset), <<>>),
                       ann("", TB("Data", ById("s1"), ByH(1), NoOffset), d2),
                       ann("", TB("Set", ById("s1"), NoRef, NoOffset), <<>>),
                       ann("a5", TB("Ann", ById("a1"), NoRef, NoOffset), <<>>),
                       ann("", TB("Ann", ById("a1"), NoRef, Off("B", 0, "B", 1)), <<>>),
                       ann("", TB("Ann", ById("a5"), NoRef, NoOffset), d1)>>

ApplyAll(s0, ops) == FoldL(LAMBDA s, op : ApplyAny(s, op.ev, op.a).st, s0, ops)

KeysOf(s) == {k \in 1..Len(st.sets[s].keys) : st.sets[s].keys[k].alive}
DatasOf(s) == {d \in 1..Len(st.sets[s].data) : st.sets[s].data[d].alive}

Step(ev, a) ==
    /\ Len(hist) < Depth + Len(PreludeOps)      \* depth bound as a guard (a CONSTRAINT would still generate the successors)
    /\ InDomainAny(st, ev, a)
    /\ st' = ApplyAny(st, ev, a).st
    /\ hist' = Append(hist, [ev |-> ev, a |-> a])

Building == Scenario \notin {"remove", "protect", "transpose", "batch", "tempish", "delete"}
\* tuning steps do not change the specification state, so they are only worth generating when histories are emitted
Tuning == ~EmitAll
Adding == Scenario \notin {"remove", "offsets", "related", "textops", "batch", "tempish", "complexrel", "complexmeta", "delete"}
\* C07: one resource per behaviour, over every text up to P1 characters of the alphabet selected by P2
TextAlphabet == CASE P2 = 1 -> {11, 41, 12} [] P2 = 2 -> {11, 22, 32} [] P2 = 3 -> {11, 31, 21}
                       [] P2 = 5 -> {11, 32, 43}      \* a character that grows and one that shrinks when lower-cased
                       [] OTHER -> {11, 14, 41}

Removing == Scenario \in {"all", "remove", "core", "tempish"}
\* C18: after protecting, every annotation that selects text validates (a law of the specification itself)
\* C16: every transposition in the store links piecewise identical text (also the ones transpose() returns)
InvTranspositions == TranspositionsLinkIdenticalText(st)
InvProtected == (hist # <<>> /\ hist[Len(hist)].ev = "ProtectText") => ProtectedOK(st)

Next ==
    \/ Adding /\ \E i \in ResIds, t \in Texts : Step("AddResource", [id |-> i, text |-> t])
    \/ Adding /\ \E i \in SetIds : Step("AddDataset", [id |-> i])
    \/ Scenario = "textops" /\ st.res = <<>> /\ \E t \in TextsUpTo(P1, TextAlphabet) : Step("AddResource", [id |-> "r1", text |-> t])
    \/ Building /\ Scenario # "textops" /\ \E a \in AnnotateMenu : Step("Annotate", a)
    \/ Building /\ Scenario \in {"all", "core"} /\ \E s \in SetRefs, k \in {"k1", "k2"}, v \in Vals, sf \in BOOLEAN :
          Step("InsertData", [set |-> s, key |-> ById(k), id |-> NoRef, val |-> v, safety |-> sf])
    \/ Removing /\ \E x \in AnnRefs : Step("RemoveAnnotation", [ann |-> x])
    \/ Removing /\ \E r \in ResRefs : Step("RemoveResource", [res |-> r])
    \/ Removing /\ \E s \in SetRefs : Step("RemoveDataset", [set |-> s])
    \/ Removing /\ \E s \in LiveSets(st) : \E d \in DatasOf(s), strict \in BOOLEAN :
          Step("RemoveData", [set |-> ByH(s), data |-> ByH(d), strict |-> strict])
    \/ Removing /\ \E s \in LiveSets(st) : \E k \in KeysOf(s), strict \in BOOLEAN :
          Step("RemoveKey", [set |-> ByH(s), key |-> ByH(k), strict |-> strict])
    \/ Scenario = "all" /\ Step("StripAnnotationIds", [x |-> 0])
    \/ Scenario = "all" /\ Step("StripDataIds", [x |-> 0])
    \/ Scenario = "transpose" /\
          \E x \in {y \in LiveAnns(st) : st.anns[y].id # ""} : \E t \in {y \in LiveAnns(st) : Sides(st, y) # <<>>} :
              Step("Transpose", [src |-> ByH(x), via |-> ByH(t), tag |-> ToString(Len(hist))])
    \/ Scenario = "transpose" /\ \E r \in LiveRes(st) : \E x \in RangesOf(Len(st.res[r].text)) :
          x[1] < x[2] /\ (\A y \in LiveAnns(st) : st.anns[y].id # "src" \o ToString(r) \o ToString(x[1]) \o ToString(x[2])) /\
          Step("Annotate", [id |-> "src" \o ToString(r) \o ToString(x[1]) \o ToString(x[2]), target |-> TB("Text", ByH(r), NoRef, Off("B", x[1], "B", x[2])), data |-> <<>>])
    \* C03: a second item with an identifier that looks like a temporary one must be rejected like any duplicate
    \/ Scenario = "tempish" /\ \E i \in {"!Rx", "!R", "r1"}, t \in {<<11, 12, 21>>, <<13, 11>>} : Step("AddResource", [id |-> i, text |-> t])
    \/ Scenario = "tempish" /\ \E i \in {"!Sx", "!S"} : Step("AddDataset", [id |-> i])
    \/ Scenario = "tempish" /\ \E i \in {"!Ax", "!A", "!Ay"}, r \in {"!Rx", "r1"} :
          Step("Annotate", [id |-> i, target |-> TB("Text", ById(r), NoRef, Off("B", 1, "B", 2)), data |-> <<DB(ById("!Sx"), ById("!Kx"), ById("!Dx"), StrVal("v1"))>>])
    \* C02: removal by query (scenario "delete": DELETE queries only, over preludes with chains and shared data)
    \/ Scenario = "delete" /\ \E sub \in {Q("SELECT", "ANNOTATION", "x", <<>>, <<>>), Q("SELECT", "ANNOTATION", "x", <<CRes("r1", FALSE)>>, <<>>),
                                           Q("SELECT", "ANNOTATION", "x", <<CKey("s1", "k1", FALSE)>>, <<>>), Q("SELECT", "ANNOTATION", "x", <<CId("a1")>>, <<>>),
                                           Q("SELECT", "ANNOTATION", "x", <<CRes("r1", TRUE)>>, <<>>),
                                           Q("SELECT", "ANNOTATION", "x", <<CAnn("a1", TRUE, FALSE)>>, <<>>), Q("SELECT", "ANNOTATION", "x", <<CAnn("a5", FALSE, TRUE)>>, <<>>),
                                           Q("SELECT", "ANNOTATION", "x", <<CSet("s1", FALSE)>>, <<>>), Q("SELECT", "ANNOTATION", "x", <<CId("nope")>>, <<>>)} :
          \* (the DELETE syntax only admits ANNOTATION as its type)
          Step("QueryDelete", [sub |-> sub])
    \/ Scenario = "batch" /\ \E i \in {"", "q1", "a1"}, d \in {<<>>, <<DB(ById("s1"), ById("k7"), NoRef, StrVal("v7"))>>},
                                  sub \in {Q("SELECT", "TEXT", "y", <<CAnn("a1", FALSE, FALSE)>>, <<>>), Q("SELECT", "ANNOTATION", "y", <<CRes("r1", FALSE)>>, <<>>),
                                           Q("SELECT", "ANNOTATION", "y", <<CId("a1")>>, <<>>), Q("SELECT", "ANNOTATION", "y", <<CId("nope")>>, <<>>),
                                           Q("SELECT", "RESOURCE", "y", <<CId("r1")>>, <<>>), Q("SELECT", "ANNOTATION", "y", <<CKey("s1", "k2", FALSE)>>, <<>>)} :
          Step("QueryAdd", [id |-> i, data |-> d, sub |-> sub])
    \/ Scenario = "batch" /\ \E items \in Batches, via \in {"iter", "file"} : Step("AnnotateBatch", [items |-> items, via |-> via])
    \/ Scenario \in {"all", "protect"} /\ \E m \in {"checksum", "text", "both", "auto"} : Step("ProtectText", [mode |-> m])
    \/ Scenario \in {"all", "offsets"} /\ Tuning /\ Step("ShrinkToFit", [x |-> 0])

Init == st = ApplyAll(InitState, PreludeOps) /\ hist = PreludeOps
Spec == Init /\ [][Next]_vars

Bounded ==
    /\ Len(st.res) <= MaxRes /\ Len(st.sets) <= MaxSets /\ Len(st.anns) <= MaxAnns
    /\ \A s \in DOMAIN st.sets : Len(st.sets[s].data) <= MaxData /\ Len(st.sets[s].keys) <= MaxKeys
    /\ Len(hist) <= Depth + Len(PreludeOps)

View == st

----------------------------------------------------------------------------
Inv == StateOK(st)
InvIndexExact == IndexExact(st)
InvIndexChrono == IndexChronological(st)
InvKeyData == KeyDataExact(st)
InvNoDangling == NoDangling(st)
InvIdMap == IdMapExact(st)
InvTsel == TselWF(st)
InvTombs == TombsCanonical(st)

(* C02 / C14 as action properties over the bounded model                   *)
\* items are never resurrected and handles never reused
Monotone ==
    [][ /\ Len(st'.res) >= Len(st.res) /\ Len(st'.sets) >= Len(st.sets) /\ Len(st'.anns) >= Len(st.anns)
        /\ \A h \in DOMAIN st.anns : ~st.anns[h].alive => ~st'.anns[h].alive
        /\ \A h \in DOMAIN st.res : ~st.res[h].alive => ~st'.res[h].alive
        /\ \A h \in DOMAIN st.sets : ~st.sets[h].alive => ~st'.sets[h].alive
        /\ \A r \in DOMAIN st.res : st'.res[r].alive => \A i \in DOMAIN st.res[r].tsel : st'.res[r].tsel[i] = st.res[r].tsel[i]
      ]_vars

\* Design-level deviation: what the model looks like if removing a key shifts the key-data rows
\* (the behaviour of Vec::remove on key_data_map); with DevShift = TRUE TLC must find KeyDataExact violated.
DevInv == DevShift => TRUE

----------------------------------------------------------------------------
(* Behaviour emission for the conformance harness                          *)
\* Read-only questions asked of the final state of every emitted behaviour (they do not change the state, so they
\* are appended to the behaviour instead of being explored as steps).  Reads is a set of menu names.
RO(ev, a) == [ev |-> ev, a |-> a]
Cont(on, res, b, e, ann) == [on |-> on, res |-> res, b |-> b, e |-> e, ann |-> ann]

LookupOps ==
    LET ids == {"r1", "r2", "s1", "a1", "a2", "a5", "k1", "k2", "d1", "nope"}
               \* identifiers that begin like temporary ones (of their own and of other kinds) without being one
               \cup (IF Scenario = "tempish" THEN {"!Rx", "!R", "!Sx", "!S", "!Ax", "!A", "!Ay", "!Kx", "!Dx", "!Xx"} ELSE {})
        subids == {"k1", "k2", "d1", "nope"} \cup (IF Scenario = "tempish" THEN {"!Kx", "!Dx", "!K", "!Ax"} ELSE {})
        top == {"res", "set", "ann"}
        n(k) == CASE k = "res" -> Len(st.res) [] k = "set" -> Len(st.sets) [] OTHER -> Len(st.anns)
    IN {RO("Lookup", [kind |-> k, ref |-> ById(i), set |-> NoRef]) : k \in top, i \in ids}
       \cup UNION {{RO("Lookup", [kind |-> k, ref |-> ByH(h), set |-> NoRef]) : h \in 1..(n(k) + 1)} : k \in top}
       \cup UNION {{RO("Lookup", [kind |-> k, ref |-> ByTemp(tl, tn), set |-> NoRef]) : tl \in {"A", "R", "S", "K", "X"}, tn \in 0..n(k)} : k \in top}
       \cup UNION {{RO("Lookup", [kind |-> k, ref |-> r, set |-> ByH(s)]) :
                       k \in {"key", "data"},
                       r \in {ById(i) : i \in subids} \cup {ByH(h) : h \in 1..3} \cup {ByTemp(tl, tn) : tl \in {"K", "D", "A"}, tn \in 0..2}} : s \in LiveSets(st)}

Cursors(len) == {<<"B", v>> : v \in 0..(len + 1)} \cup {<<"E", -v>> : v \in 0..(len + 1)} \cup {<<"E", 1>>}
OffsOver(len) == {Off(b[1], b[2], e[1], e[2]) : b \in Cursors(len), e \in Cursors(len)}
Containers ==
    {Cont("res", ByH(r), 0, 0, NoRef) : r \in LiveRes(st)}
    \cup UNION {{Cont("range", ByH(r), be[1], be[2], NoRef) : be \in {<<1, Len(st.res[r].text)>>, <<0, 2>>, <<1, 1>>} \cap {x \in Nat \X Nat : x[2] <= Len(st.res[r].text)}} : r \in LiveRes(st)}
    \cup {Cont("ann", NoRef, 0, 0, ByH(x)) : x \in {y \in LiveAnns(st) : HasSingleText(st.anns[y])}}
ContLen(c) == CASE c.on = "res" -> Len(st.res[c.res.h].text) [] c.on = "range" -> c.e - c.b
                [] OTHER -> LET lf == st.anns[c.ann.h].leaves[1] IN LeafRange(st, lf)[2] - LeafRange(st, lf)[1]

OffsetOps ==
    UNION {{RO("TextSel", [c |-> c, off |-> o]) : o \in OffsOver(ContLen(c))} : c \in Containers}
AnnOps ==
    {RO("AnnTextOf", [ann |-> ByH(x)]) : x \in LiveAnns(st)}
ReportOps ==
    {RO("OffsetReport", [ann |-> ByH(x), m |-> m]) : x \in {y \in LiveAnns(st) : HasSingleText(st.anns[y])}, m \in 0..3}
ByteOps ==
    UNION {{RO(ev, [c |-> c, p |-> p]) : ev \in {"Utf8Byte", "ByteToChar"}, p \in 0..(4 * ContLen(c) + 2)} : c \in Containers}

----------------------------------------------------------------------------
(* C13 / C06: operator variants.  o = [op, all, negate, ws, limit]          *)
OpRec(op, all, neg, ws, lim) == [op |-> op, all |-> all, negate |-> neg, ws |-> ws, limit |-> lim]
\* every operator x modifier combination whose meaning the documentation defines for sets (no limit; Equals has no `all`)
OpVariants ==
    {OpRec("Equals", FALSE, n, FALSE, 0) : n \in BOOLEAN}
    \cup {OpRec(op, al, n, FALSE, 0) : op \in {"Overlaps", "Embeds", "Embedded", "Before", "After", "SameBegin", "SameEnd"}, al \in BOOLEAN, n \in BOOLEAN}
    \cup {OpRec(op, al, n, w, 0) : op \in {"Precedes", "Succeeds"}, al \in BOOLEAN, n \in BOOLEAN, w \in BOOLEAN}
\* limits are part of the pairwise relation; they are only specified where the left-hand side is a single selection
LimitVariants == {OpRec(op, al, n, FALSE, lim) : op \in {"Embedded", "Before", "After"}, al \in BOOLEAN, n \in BOOLEAN, lim \in {1, 2}}

\* sets of at most two ranges, as sequences in textual order
RangeSetsUpTo2(R) == {<<x>> : x \in R} \cup {p \in R \X R : RangeBefore(p[1], p[2])}

RelRowOps ==
    UNION {LET R == RangesOf(Len(st.res[r].text))
               sets == RangeSetsUpTo2(R)
               singles == {<<x>> : x \in R}
               allBs == SetToSeq(sets)
               singleBs == SetToSeq(singles)
           IN {RO("TestRelationRow", [res |-> ByH(r), A |-> A, Bs |-> IF P2 >= 2 THEN allBs ELSE singleBs, o |-> o, sorted |-> srt]) :
                    srt \in (IF P2 >= 2 THEN BOOLEAN ELSE {FALSE}),
                    A \in (IF P2 >= 2 THEN sets ELSE singles), o \in OpVariants}
              \cup {RO("TestRelationRow", [res |-> ByH(r), A |-> A, Bs |-> IF P2 >= 2 THEN allBs ELSE singleBs, o |-> o, sorted |-> FALSE]) : A \in singles, o \in LimitVariants}
          : r \in LiveRes(st)}

RelatedOps ==
    UNION {LET R == RangesOf(Len(st.res[r].text))
               known == Range(st.res[r].tsel)
               singles == {<<x>> : x \in R}
               pairs == {p \in known \X known : RangeBefore(p[1], p[2])}
               os == SetToSeq(OpVariants)
               ls == SetToSeq(LimitVariants)
               row(via, A, x, o) == RO("RelatedRow", [res |-> ByH(r), via |-> via, A |-> A, ann |-> x, os |-> o])
           IN {row("sel", A, NoRef, os) : A \in singles \cup pairs}
              \cup {row("sel", A, NoRef, ls) : A \in singles}
              \cup {row("ann", <<>>, ByH(x), os) : x \in {y \in LiveAnns(st) : \E i \in DOMAIN AnnText(st, y) : AnnText(st, y)[i][1] = r}}
          : r \in LiveRes(st)}

\* C07
TextContainers ==
    {Cont("res", ByH(r), 0, 0, NoRef) : r \in LiveRes(st)}
    \cup UNION {{Cont("range", ByH(r), x[1], x[2], NoRef) : x \in {y \in RangesOf(Len(st.res[r].text)) : y[1] < y[2]}} : r \in LiveRes(st)}
SegmentOps == {RO("TextOp", [c |-> c, op |-> "segmentation", needle |-> <<>>, pat |-> <<>>, frags |-> <<>>]) : c \in TextContainers}

Partner(c) == CASE c = 11 -> 41 [] c = 41 -> 11 [] c = 12 -> 22 [] c = 22 -> 12 [] c = 21 -> 61 [] c = 43 -> 101 [] OTHER -> c
TextOpOps ==
    LET A == TextAlphabet
        A2 == A \cup {Partner(c) : c \in A}
        needles(S) == {<<x>> : x \in S} \cup {<<x, y>> : x \in S, y \in S}
        T(c, op, needle, pat, frags) == RO("TextOp", [c |-> c, op |-> op, needle |-> needle, pat |-> pat, frags |-> frags])
        G(alts, cap, opt) == [alts |-> alts, cap |-> cap, opt |-> opt]
        a == CHOOSE x \in A : \A y \in A : x <= y
        b == CHOOSE x \in A : \A y \in A : x >= y
        pats == {<< G(<< <<a>> >>, FALSE, FALSE) >>,
                 << G(<< <<a>>, <<b>> >>, TRUE, FALSE) >>,
                 << G(<< <<a>> >>, TRUE, FALSE), G(<< <<b>>, <<a, b>> >>, TRUE, FALSE) >>,
                 << G(<< <<a>> >>, FALSE, FALSE), G(<< <<b>> >>, TRUE, TRUE) >>,
                 << G(<< <<b>>, <<b, b>> >>, FALSE, FALSE), G(<< <<b>> >>, FALSE, TRUE) >>,
                 << G(<< <<a, a>>, <<a>> >>, TRUE, FALSE), G(<< <<a>> >>, TRUE, TRUE), G(<< <<b>> >>, FALSE, FALSE) >>}
        seqs == {<< <<x>>, <<y>> >> : x \in A, y \in A} \cup {<< <<a>>, <<b>>, <<a>> >>}
    IN UNION {{T(c, "find", n, <<>>, <<>>) : n \in needles(A)}
              \cup {T(c, "nocase", n, <<>>, <<>>) : n \in needles(A2)}
              \cup {T(c, "split", n, <<>>, <<>>) : n \in needles(A)}
              \cup {T(c, "trim", SetToSeq(S), <<>>, <<>>) : S \in {X \in SUBSET A : Cardinality(X) \in 1..2}}
              \cup {T(c, "regex", <<>>, p, <<>>) : p \in pats}
              \cup {T(c, op, SetToSeq(S), <<>>, f) : op \in {"sequence", "sequence_nocase"}, f \in seqs, S \in {{}, {b}, A}}
             : c \in TextContainers}
       \cup SegmentOps

----------------------------------------------------------------------------
(* C08: queries asked of the current state (every query in both forms: STAMQL text and programmatically built)      *)
QAnnIds == {st.anns[x].id : x \in {y \in LiveAnns(st) : st.anns[y].id # ""}}
QResIds == {st.res[r].id : r \in LiveRes(st)}
QSetKeys == UNION {{<<st.sets[s].id, st.sets[s].keys[k].id>> : k \in {k \in 1..Len(st.sets[s].keys) : st.sets[s].keys[k].alive}} : s \in LiveSets(st)}
QOpVals == {<<"=", StrVal("v1")>>, <<"!=", StrVal("v1")>>, <<"=", IntVal(1)>>, <<">", IntVal(0)>>, <<"<=", IntVal(-7)>>, <<"=", TypedVal("bool", 1, <<>>)>>,
            <<"=", NullVal>>, <<">=", TypedVal("float", 3, <<>>)>>, <<"<", TypedVal("datetime", 62, <<>>)>>}
QNeedles == UNION {{<<st.res[r].text[i]>> : i \in DOMAIN st.res[r].text} \cup {SubSeq(st.res[r].text, i, i + 1) : i \in 1..(Len(st.res[r].text) - 1)} : r \in LiveRes(st)}
QAnnCs ==
    {CId(i) : i \in QAnnIds}
    \cup {CKey(p[1], p[2], q) : p \in QSetKeys, q \in BOOLEAN}
    \cup {CKeyVal(p[1], p[2], ov[1], ov[2], FALSE) : p \in QSetKeys, ov \in QOpVals}
    \cup {CValue(ov[1], ov[2]) : ov \in QOpVals}
    \cup {CRes(i, q) : i \in QResIds, q \in BOOLEAN}
    \cup {CSet(st.sets[s].id, q) : s \in LiveSets(st), q \in BOOLEAN}
    \cup {CAnn(i, FALSE, r) : i \in QAnnIds, r \in BOOLEAN} \cup {CAnn(i, TRUE, FALSE) : i \in QAnnIds}
    \cup {CText(n, nc) : n \in QNeedles, nc \in BOOLEAN}
QDataCs ==
    {CKey(p[1], p[2], FALSE) : p \in QSetKeys}
    \cup {CKeyVal(p[1], p[2], ov[1], ov[2], FALSE) : p \in QSetKeys, ov \in QOpVals}
    \cup {CValue(ov[1], ov[2]) : ov \in QOpVals}
    \cup {CSet(st.sets[s].id, FALSE) : s \in LiveSets(st)}
    \cup {CAnn(i, q, FALSE) : i \in QAnnIds, q \in BOOLEAN}
\* a smaller menu for combinations
QAnnCore == {c \in QAnnCs : c.k \in {"Key", "Res", "Set", "Ann"} \/ (c.k = "KeyVal" /\ c.op = "=" /\ c.v.t = "str") \/ (c.k = "Text" /\ c.b = "exact" /\ Len(c.v.l) = 1)}
QSubs == {Q("SELECT", "ANNOTATION", "y", <<CAnnVar("x", q, FALSE)>>, <<>>) : q \in BOOLEAN}
         \cup {Q("SELECT", "ANNOTATION", "y", <<CAnnVar("x", FALSE, TRUE)>>, <<>>), Q("SELECT", "ANNOTATION", "y", <<CTextVar("x")>>, <<>>),
               Q("SELECT", "DATA", "y", <<CAnnVar("x", FALSE, FALSE)>>, <<>>), Q("SELECT", "DATA", "y", <<CAnnVar("x", TRUE, FALSE)>>, <<>>)}
         \cup {Q("SELECT", "ANNOTATION", "y", <<CRelation("x", kw)>>, <<>>) : kw \in {"EQUALS", "EMBEDS", "EMBEDDED", "OVERLAPS", "BEFORE", "AFTER", "PRECEDES", "SUCCEEDS", "SAMEBEGIN", "SAMEEND"}}
QueriesOf ==
    {Q("SELECT", "ANNOTATION", "x", <<>>, <<>>), Q("SELECT", "DATA", "x", <<>>, <<>>)}
    \cup {Q("SELECT", "ANNOTATION", "x", <<c>>, <<>>) : c \in QAnnCs}
    \cup {Q("SELECT", "DATA", "x", <<c>>, <<>>) : c \in QDataCs}
    \cup {Q("SELECT", "ANNOTATION", "x", <<c1, c2>>, <<>>) : c1 \in QAnnCore, c2 \in QAnnCore}
    \cup {Q("SELECT", "DATA", "x", <<c1, c2>>, <<>>) : c1 \in {c \in QDataCs : c.k # "KeyVal"}, c2 \in {c \in QDataCs : c.k # "KeyVal"}}
    \cup {Q("SELECT", "ANNOTATION", "x", <<CUnion(<<c1, c2>>)>>, <<>>) : c1 \in QAnnCore, c2 \in QAnnCore}
    \cup {Q("SELECT", "ANNOTATION", "x", <<c, CLimit(l[1], l[2])>>, <<>>) : c \in {d \in QAnnCore : d.k \in {"Res", "Key"}}, l \in {<<0, 1>>, <<0, 2>>, <<1, 0>>, <<-1, 0>>, <<0, -1>>, <<1, 2>>, <<-2, -1>>, <<1, -1>>, <<2, -1>>, <<1, -2>>, <<-3, 2>>, <<-1, 5>>}}
    \cup {Q("SELECT", "ANNOTATION", "x", <<c>>, <<sq>>) : c \in {d \in QAnnCore : d.k \in {"Res", "Key", "Set"}}, sq \in QSubs \cup {Optional(z) : z \in QSubs}}
\* TEXT and RESOURCE results.  (Asked only of stores in which every known text selection still has an annotation: the
\* documentation does not say whether selections orphaned by removals count as results.)
NoOrphans == \A r \in LiveRes(st) : \A i \in DOMAIN st.res[r].tsel :
                 \E x \in LiveAnns(st) : <<r, st.res[r].tsel[i][1], st.res[r].tsel[i][2]>> \in Range(AnnText(st, x))
QTextCore == {CRes(i, FALSE) : i \in QResIds} \cup {CKey(p[1], p[2], FALSE) : p \in QSetKeys}
             \cup {CKeyVal(p[1], p[2], "=", StrVal("v1"), FALSE) : p \in QSetKeys} \cup {CValue("=", StrVal("v1")), CValue("!=", StrVal("v1"))}
QTextQueries ==
    {Q("SELECT", "TEXT", "x", <<>>, <<>>)}
    \cup {Q("SELECT", "TEXT", "x", <<c>>, <<>>) : c \in QTextCore \cup {CAnn(i, FALSE, FALSE) : i \in QAnnIds} \cup {CText(n, nc) : n \in QNeedles, nc \in BOOLEAN}
                                                       \cup {CKeyVal(p[1], p[2], ov[1], ov[2], FALSE) : p \in QSetKeys, ov \in QOpVals}}
    \cup {Q("SELECT", "TEXT", "x", <<c1, c2>>, <<>>) : c1 \in QTextCore \cup {CAnn(i, FALSE, FALSE) : i \in QAnnIds}, c2 \in QTextCore}
    \cup {Q("SELECT", "TEXT", "x", <<c, CLimit(l[1], l[2])>>, <<>>) : c \in {CRes(i, FALSE) : i \in QResIds}, l \in {<<0, 1>>, <<1, 0>>, <<-1, 0>>, <<0, -1>>, <<-2, -1>>}}
    \cup {Q("SELECT", "TEXT", "x", <<c>>, <<sq>>) : c \in {CRes(i, FALSE) : i \in QResIds},
             sq \in {Q("SELECT", "ANNOTATION", "y", <<CTextVar("x")>>, <<>>), Q("SELECT", "DATA", "y", <<CTextVar("x")>>, <<>>)}
                    \cup {Q("SELECT", "TEXT", "y", <<CRelation("x", kw)>>, <<>>) : kw \in {"EMBEDS", "EMBEDDED", "OVERLAPS", "BEFORE", "SUCCEEDS", "SAMEBEGIN"}}}
    \cup {Q("SELECT", "ANNOTATION", "x", <<c>>, <<Q("SELECT", "TEXT", "y", <<CAnnVar("x", FALSE, FALSE)>>, <<>>)>>) : c \in {d \in QAnnCore : d.k \in {"Res", "Key"}}}
    \cup {Q("SELECT", "DATA", "x", <<c>>, <<Q("SELECT", "TEXT", "y", <<CDataVar("x", FALSE)>>, <<>>)>>) : c \in {CKey(p[1], p[2], FALSE) : p \in QSetKeys}}
    \cup {Q("SELECT", "RESOURCE", "x", <<>>, <<>>)}
    \cup {Q("SELECT", "RESOURCE", "x", <<c>>, <<>>) : c \in {CId(i) : i \in QResIds} \cup {CKey(p[1], p[2], q) : p \in QSetKeys, q \in BOOLEAN}
                                                            \cup {CKeyVal(p[1], p[2], "=", StrVal("v1"), q) : p \in QSetKeys, q \in BOOLEAN}}
    \cup {Q("SELECT", "RESOURCE", "x", <<>>, <<Q("SELECT", "TEXT", "y", <<CResVar("x", FALSE)>>, <<>>)>>)}
    \* KEY and DATASET results
    \cup {Q("SELECT", "KEY", "x", <<>>, <<>>), Q("SELECT", "DATASET", "x", <<>>, <<>>)}
    \cup {Q("SELECT", "KEY", "x", <<c>>, <<>>) : c \in {CSet(st.sets[s].id, FALSE) : s \in LiveSets(st)} \cup {CAnn(i, q, FALSE) : i \in QAnnIds, q \in BOOLEAN}}
    \cup {Q("SELECT", "KEY", "x", <<c, CLimit(l[1], l[2])>>, <<>>) : c \in {CSet(st.sets[s].id, FALSE) : s \in LiveSets(st)}, l \in {<<0, 1>>, <<1, 0>>, <<-1, 0>>}}
    \cup {Q("SELECT", "DATASET", "x", <<c>>, <<>>) : c \in {CId(st.sets[s].id) : s \in LiveSets(st)} \cup {CSet(st.sets[s].id, FALSE) : s \in LiveSets(st)}}
    \cup {Q("SELECT", "ANNOTATION", "x", <<c>>, <<Q("SELECT", "KEY", "y", <<CAnnVar("x", q, FALSE)>>, <<>>)>>) : c \in {d \in QAnnCore : d.k \in {"Res", "Key"}}, q \in BOOLEAN}
    \cup {Q("SELECT", "DATA", "x", <<c>>, <<Q("SELECT", "KEY", "y", <<CDataVar("x", FALSE)>>, <<>>)>>) : c \in {CSet(st.sets[s].id, FALSE) : s \in LiveSets(st)}}
QueryOps == {RO("Query", [q |-> q, form |-> f]) : q \in QueriesOf, f \in {"text", "built"}}
TextQueryOps == IF NoOrphans THEN {RO("Query", [q |-> q, form |-> f]) : q \in QTextQueries, f \in {"text", "built"}} ELSE {}

----------------------------------------------------------------------------
(* C19: structural mutations of the serialisations of the current store (interpreted by the harness, which writes the   *)
(* document of the current store, mutates it and loads it in a child process).  L(format, part, idx, op, arg)            *)
L(f, p, i, o, a) == RO("Load", [format |-> f, part |-> p, idx |-> i, op |-> o, arg |-> a])
NAnnDoc == Cardinality(LiveAnns(st))
LoadOps ==
    {L("json", "top", 1, "none", 0)}
    \cup {L("json", "ann", i, o, 0) : i \in 1..Min2(NAnnDoc, 3),
            o \in {"del_target", "del_id", "del_data", "dup", "swap_next", "target_string", "target_null", "target_number", "target_array",
                   "type_unknown", "type_text_no_offset", "type_multi_empty", "type_multi_nested", "res_dangling", "self_target", "forward_target",
                   "offset_inverted", "cursor_type_unknown", "data_set_dangling", "data_string", "data_incomplete"}}
    \cup {L("json", "ann", i, o, a) : i \in 1..Min2(NAnnDoc, 2), o \in {"tempid", "tempid_target", "data_tempid"}, a \in 0..9}
    \cup {L("json", "ann", 1, "offset", a) : a \in 0..8}
    \cup {L("json", "ann", i, "chain_offset", a) : i \in 1..Min2(NAnnDoc, 2), a \in 0..4}
    \cup {L("json", "ann", 2, o, a) : o \in {"offset_end", "offset_rel", "offset_rel_end"}, a \in 0..11}
    \cup {L("json", "ann", 1, "offset", a) : a \in 9..11}
    \cup {L("json", "ann", i, "multi_keys", a) : i \in 1..Min2(NAnnDoc, 2), a \in 0..2} \cup {L("json", "ann", 2, "multi_mixed", 0)}
    \cup {L("json", "ann", i, "data_tempid_full", a) : i \in 1..Min2(NAnnDoc, 2), a \in 0..9}
    \cup {L("json", "top", 1, "second_annotations", a) : a \in 0..9}
    \cup {L("json", "set", 1, "second_data", a) : a \in 0..9}
    \cup {L("json", "set", 1, o, 0) : o \in {"key_dup", "key_null", "keys_string", "del_keys", "data_key_dangling", "value_type_unknown", "dup", "include_missing", "include_self"}}
    \cup {L("json", "set", 1, "data_tempid", a) : a \in 0..9} \cup {L("json", "set", 1, "data_value_deep", a) : a \in {0, 3, 40}}
    \cup {L("json", "res", 1, o, 0) : o \in {"del_text", "text_number", "id_number", "include_missing", "include_self", "dup"}}
    \cup {L("json", "top", 1, o, 0) : o \in {"type_wrong", "annotations_object", "resources_null", "extra_field", "include_self", "empty", "not_json", "deep_nesting"}}
    \cup {L("json", "top", 1, "truncate", a) : a \in 1..9}
    \cup {L("cbor", "file", 1, "truncate", a) : a \in 0..9} \cup {L("cbor", "file", 1, "bitflip", a) : a \in 0..39} \cup {L("cbor", "file", 1, "byte_ff", a) : a \in 0..9}
    \cup {L("cbor", "file", 1, "none", 0), L("csv", "manifest", 1, "none", 0)}
    \cup {L("csv", p, 1, "truncate", a) : p \in {"annotations", "manifest", "dataset"}, a \in {0, 3, 5, 8}}
    \cup {L("csv", p, 1, "replace", a) : p \in {"annotations", "dataset", "manifest"}, a \in 0..9}
    \cup {L("csv", p, 1, o, 0) : p \in {"annotations", "manifest", "dataset"}, o \in {"empty", "delete_file"}}
    \cup {L("csv", p, 1, "bitflip", a) : p \in {"annotations", "dataset", "manifest"}, a \in 0..9}
    \cup {L("csv", "annotations", 1, "replace", a) : a \in 10..17}
    \* one ';'-separated part less (or more) in one column of every row of the annotations file
    \cup {L("csv", "annotations", 1, o, a) : o \in {"trimcol", "growcol"}, a \in 0..9}
    \cup {L("csv", "annotations", 1, "dropcols", a) : a \in 1..4}

\* C10: data search by set / key / value test, through the store and through the dataset
FindOps == {RO("FindData", [set |-> sk[1], key |-> sk[2], op |-> ov[1], v |-> ov[2], via |-> via]) :
               sk \in QSetKeys \cup {<<st.sets[s].id, "">> : s \in LiveSets(st)} \cup {<<"", "">>},
               ov \in QOpVals \cup {<<"=", [t |-> "any", s |-> "", n |-> 0, l |-> <<>>]>>, <<"=", StrVal("v2")>>, <<"!=", IntVal(1)>>, <<"=", IntVal(-7)>>,
                                    <<"=", StrVal("1")>>, <<"!=", StrVal("1")>>, <<"=", StrVal("1.5")>>, <<"=", StrVal("yes")>>, <<"=", StrVal("-7")>>,
                                    <<"=", TypedVal("bool", 0, <<>>)>>, <<"=", TypedVal("float", 2, <<>>)>>, <<"=", TypedVal("float", 3, <<>>)>>, <<"!=", NullVal>>,
                                    <<"or", TypedVal("list", 0, <<StrVal("v1"), IntVal(1)>>)>>, <<"!or", TypedVal("list", 0, <<StrVal("v1"), NullVal>>)>>,
                                    <<"or", TypedVal("list", 0, <<StrVal("1"), TypedVal("bool", 1, <<>>)>>)>>,
                                    <<"and", TypedVal("list", 0, <<IntVal(-8), IntVal(1)>>)>>, <<"and", TypedVal("list", 0, <<IntVal(0), IntVal(2)>>)>>,
                                    <<"has", StrVal("v2")>>, <<"has", IntVal(1)>>, <<"has", StrVal("1")>>, <<"has", TypedVal("float", 2, <<>>)>>},
               via \in {"store", "set"}}

Has(x) == x \in Reads
ReadOps ==
    (IF Has("lookup") THEN SetToSeq(LookupOps) ELSE <<>>)
    \o (IF Has("offsets") THEN SetToSeq(OffsetOps) \o SetToSeq(AnnOps) \o SetToSeq(ReportOps) ELSE <<>>)
    \o (IF Has("anntext") THEN SetToSeq(AnnOps) \o SetToSeq(ReportOps) ELSE <<>>)
    \o (IF Has("finddata") THEN SetToSeq(FindOps) ELSE <<>>)
    \o (IF Has("loads") THEN SetToSeq(LoadOps) ELSE <<>>)
    \o (IF Has("queries") THEN SetToSeq(QueryOps) ELSE <<>>)
    \o (IF Has("textqueries") THEN SetToSeq(TextQueryOps) ELSE <<>>)
    \o (IF Has("webanno") THEN SetToSeq({RO("WebAnno", [ann |-> ByH(x), tmpl |-> t, ns |-> n]) : x \in LiveAnns(st), t \in BOOLEAN, n \in BOOLEAN}) ELSE <<>>)
    \o (IF Has("validate") THEN <<RO("Validate", [x |-> 0])>> ELSE <<>>)
    \o (IF Has("bytes") THEN SetToSeq(ByteOps) ELSE <<>>)
    \o (IF Has("relrows") THEN SetToSeq(RelRowOps) ELSE <<>>)
    \o (IF Has("related") THEN SetToSeq(RelatedOps) ELSE <<>>)
    \o (IF Has("segment") THEN SetToSeq(SegmentOps) ELSE <<>>)
    \o (IF Has("textops") THEN SetToSeq(TextOpOps) ELSE <<>>)

\* EmitAll (used with VIEW View): one behaviour per distinct reachable state, so that read-only questions are asked
\* once per state instead of once per history
Emit == (EmitAll \/ Len(hist) = Depth + Len(PreludeOps)) => PrintT(<<"REPLAY", ToJson(hist \o ReadOps)>>)
=============================================================================
