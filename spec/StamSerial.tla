----------------------------- MODULE StamSerial -----------------------------
(* Serialisation round trips (C05 STAM JSON, C11 CBOR, C15 STAM CSV).       *)
(*                                                                         *)
(* A round trip is an action of the store state machine: the store is      *)
(* written, read back, and the history CONTINUES ON THE RELOADED STORE.     *)
(*   CBOR  (C11): the reloaded state must be identical, handle for handle,  *)
(*         tombstone for tombstone, index row for index row.                *)
(*   JSON  (C05): the formats do not carry handles, so the reloaded store   *)
(*         may number its items differently; what must be preserved is the  *)
(*         *view*: live items in order, identified by their rank, with      *)
(*         ids, texts, typed values, targets (kind, referenced items,       *)
(*         absolute ranges, alignment mode) and data references.            *)
(*   CSV   (C15): the same view with values reduced to their text.          *)
(* In all cases the reloaded state must satisfy every store invariant       *)
(* (StateOK), which is how "indices are rebuilt correctly" is decided.      *)
EXTENDS StamStore

RankOf(items, h) == Cardinality({i \in 1..h : items[i].alive})
LiveHandles(items) == SelectSeq([i \in DOMAIN items |-> i], LAMBDA i : items[i].alive)

\* text of a value as the CSV format stores it (only the value types the CSV histories use)
ValText(v) == CASE v.t = "str" -> v.s
                [] v.t = "int" -> ToString(v.n)
                [] v.t = "null" -> ""
                [] OTHER -> "?" \o v.t

ViewVal(v, fmt) == IF fmt = "csv" THEN [t |-> "str", s |-> ValText(v), n |-> 0, l |-> <<>>] ELSE v

VLeaf(k, a, b, e, x, m) == [k |-> k, a |-> a, b |-> b, e |-> e, x |-> x, m |-> m]
ViewLeaf(st, l) ==
    CASE l.k = "Text"    -> VLeaf("Text", RankOf(st.res, l.a), LeafRange(st, l)[1], LeafRange(st, l)[2], 0, l.m)
      [] l.k = "AnnText" -> VLeaf("AnnText", RankOf(st.anns, l.a), LeafRange(st, l)[1], LeafRange(st, l)[2], RankOf(st.res, l.c), l.m)
      [] l.k = "Ann"     -> VLeaf("Ann", RankOf(st.anns, l.a), 0, 0, 0, 0)
      [] l.k = "Res"     -> VLeaf("Res", RankOf(st.res, l.a), 0, 0, 0, 0)
      [] l.k = "Set"     -> VLeaf("Set", RankOf(st.sets, l.a), 0, 0, 0, 0)
      [] l.k = "Key"     -> VLeaf("Key", RankOf(st.sets, l.a), RankOf(st.sets[l.a].keys, l.b), 0, 0, 0)
      [] OTHER           -> VLeaf("Data", RankOf(st.sets, l.a), RankOf(st.sets[l.a].data, l.b), 0, 0, 0)

ViewSet(set, fmt) ==
    LET ks == LiveHandles(set.keys)
        ds == LiveHandles(set.data)
    IN [id |-> set.id,
        keys |-> [i \in DOMAIN ks |-> set.keys[ks[i]].id],
        data |-> [i \in DOMAIN ds |-> [id |-> set.data[ds[i]].id, key |-> RankOf(set.keys, set.data[ds[i]].key),
                                       val |-> ViewVal(set.data[ds[i]].val, fmt)]]]

ViewAnn(st, a) ==
    [id |-> a.id, kind |-> a.kind,
     leaves |-> [i \in DOMAIN a.leaves |-> ViewLeaf(st, a.leaves[i])],
     data |-> [i \in DOMAIN a.data |-> <<RankOf(st.sets, a.data[i][1]), RankOf(st.sets[a.data[i][1]].data, a.data[i][2])>>]]

View(st, fmt) ==
    LET rs == LiveHandles(st.res)
        ss == LiveHandles(st.sets)
        as == LiveHandles(st.anns)
    IN [res  |-> [i \in DOMAIN rs |-> [id |-> st.res[rs[i]].id, text |-> st.res[rs[i]].text]],
        sets |-> [i \in DOMAIN ss |-> ViewSet(st.sets[ss[i]], fmt)],
        anns |-> [i \in DOMAIN as |-> ViewAnn(st, st.anns[as[i]])]]

\* what a round trip in format fmt must preserve
RoundTripOK(st, loaded, fmt) ==
    IF fmt = "cbor" THEN loaded = st ELSE View(loaded, fmt) = View(st, fmt)

RoundTripEvents == {"RoundTrip"}
=============================================================================
