SPECIFICATION Spec
CONSTANTS
  MaxRes = 1
  MaxSets = 1
  MaxAnns = 3
  MaxData = 2
  MaxKeys = 2
  Depth = 3
  Scenario = "core"
  Size = "s"
  Prelude = 0
  Reads = {}
  DevShift = FALSE
  EmitAll = FALSE
  P1 = 0
  P2 = 0
CONSTRAINT Bounded
INVARIANT Emit
CHECK_DEADLOCK FALSE
