------------------------------ MODULE Gen_Sched ------------------------------
(* C20: all interleavings of reader threads at the accesses to shared       *)
(* interior-mutable state, for a menu of store shapes and operations.       *)
(* Used (a) by TLC to check SequentialResults on the model - it holds for   *)
(* the repaired design (SharedMode = FALSE) and TLC finds the counterexample *)
(* schedule for the code as it is (SharedMode = TRUE) - and (b) as the       *)
(* generator of schedules that the harness replays in real threads.          *)
EXTENDS StamConcurrency, Json, SequencesExt

CONSTANTS ShapeId, OpsId

VARIABLES s, sched
vars == <<s, sched>>

M(kind, standoff, changed) == [kind |-> kind, standoff |-> standoff, changed |-> changed]
Shape == [members |->
    CASE ShapeId = 1 -> <<M("set", TRUE, FALSE)>>                                          \* one unchanged stand-off dataset
      [] ShapeId = 2 -> <<M("set", TRUE, TRUE)>>                                           \* one changed stand-off dataset
      [] ShapeId = 3 -> <<M("res", TRUE, FALSE), M("set", TRUE, FALSE), M("set", FALSE, FALSE)>>
      [] ShapeId = 4 -> <<M("res", FALSE, FALSE), M("set", TRUE, TRUE), M("set", TRUE, FALSE)>>
      [] OTHER       -> <<M("set", FALSE, FALSE)>>]                                        \* nothing stand-off: no shared accesses
FirstSet == CHOOSE i \in DOMAIN Shape.members : Shape.members[i].kind = "set" /\ \A j \in 1..(i - 1) : Shape.members[j].kind # "set"
SetOp(i) == [op |-> "set", i |-> i]
StoreOp == [op |-> "store", i |-> 0]
Ops == CASE OpsId = 1 -> <<StoreOp, SetOp(FirstSet)>>
         [] OpsId = 2 -> <<StoreOp, StoreOp>>
         [] OpsId = 3 -> <<SetOp(FirstSet), SetOp(FirstSet)>>
         [] OpsId = 4 -> <<StoreOp, SetOp(FirstSet), StoreOp>>
         [] OTHER     -> <<StoreOp, SetOp(FirstSet), SetOp(FirstSet)>>

Init == s = [g |-> InitGlobal(Shape), ths |-> [t \in DOMAIN Ops |-> InitThread(Shape, Ops[t])]] /\ sched = <<>>
Next == \E t \in DOMAIN Ops :
            /\ ~s.ths[t].fin
            /\ LET r == CStep(Shape, s.g, s.ths[t], t) IN s' = [g |-> r.g, ths |-> [s.ths EXCEPT ![t] = r.th]]
            /\ sched' = Append(sched, t)
Spec == Init /\ [][Next]_vars

Done == \A t \in DOMAIN Ops : s.ths[t].fin
InvSequential == Done => SequentialResults(Shape, Ops, s)
\* dataset ops name the member by its rank among the datasets (that is how the harness addresses it)
SetRank(i) == Cardinality({j \in 1..i : Shape.members[j].kind = "set"})
HarnessOps == [t \in DOMAIN Ops |-> IF Ops[t].op = "set" THEN [op |-> "set", i |-> Ops[t].i, rank |-> SetRank(Ops[t].i)] ELSE [op |-> "store", i |-> 0, rank |-> 0]]
Emit == Done => PrintT(<<"REPLAY", ToJson(<<[ev |-> "ConcRun", a |-> [shape |-> Shape, ops |-> HarnessOps, schedule |-> sched]]>>)>>)
=============================================================================
