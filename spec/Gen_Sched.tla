------------------------------ MODULE Gen_Sched ------------------------------
(* C20: all interleavings of reader threads at the accesses to shared       *)
(* interior-mutable state, for a menu of store shapes and operations.       *)
(* Used (a) by TLC to check SequentialResults on the model - it holds for   *)
(* the repaired design (SharedMode = FALSE) and TLC finds the counterexample *)
(* schedule for the code as it is (SharedMode = TRUE) - and (b) as the       *)
(* generator of schedules that the harness replays in real threads.          *)
EXTENDS StamConcurrency, Json, SequencesExt

CONSTANTS ShapeId, OpsId, Rounds, Big

VARIABLES s, sched
vars == <<s, sched>>

M(kind, standoff, changed) == [kind |-> kind, standoff |-> standoff, changed |-> changed, fmt |-> "json"]
MT(standoff, changed) == [kind |-> "res", standoff |-> standoff, changed |-> changed, fmt |-> "txt"]
Shape == [members |->
    CASE ShapeId = 1 -> <<M("set", TRUE, FALSE)>>                                          \* one unchanged stand-off dataset
      [] ShapeId = 2 -> <<M("set", TRUE, TRUE)>>                                           \* one changed stand-off dataset
      [] ShapeId = 3 -> <<MT(TRUE, FALSE), M("set", TRUE, FALSE), M("set", FALSE, FALSE)>>
      [] ShapeId = 4 -> <<MT(FALSE, FALSE), M("set", TRUE, TRUE), M("set", TRUE, FALSE)>>
      [] ShapeId = 6 -> <<MT(TRUE, TRUE), M("set", FALSE, FALSE)>>                          \* a changed plain-text stand-off resource
      [] ShapeId = 7 -> <<MT(TRUE, TRUE), M("set", TRUE, TRUE)>>
      [] ShapeId = 8 -> <<M("res", TRUE, TRUE), M("set", TRUE, FALSE)>>                     \* a changed stand-off resource kept as JSON
      [] OTHER       -> <<M("set", FALSE, FALSE)>>]                                        \* nothing stand-off: no shared accesses
FirstSet == CHOOSE i \in DOMAIN Shape.members : Shape.members[i].kind = "set" /\ \A j \in 1..(i - 1) : Shape.members[j].kind # "set"
SetOp(i) == [op |-> "set", i |-> i]
StoreOp == [op |-> "store", i |-> 0]
Ops == CASE OpsId = 1 -> <<StoreOp, SetOp(FirstSet)>>
         [] OpsId = 2 -> <<StoreOp, StoreOp>>
         [] OpsId = 3 -> <<SetOp(FirstSet), SetOp(FirstSet)>>
         [] OpsId = 4 -> <<StoreOp, SetOp(FirstSet), StoreOp>>
         [] OpsId = 6 -> <<StoreOp, [op |-> "par", i |-> 0], SetOp(FirstSet)>>       \* with a reader that iterates, searches and queries
         [] OpsId = 7 -> <<[op |-> "par", i |-> 0], SetOp(FirstSet)>>
         [] OTHER     -> <<StoreOp, SetOp(FirstSet), SetOp(FirstSet)>>

Init == s = [g |-> InitGlobal(Shape), ths |-> [t \in DOMAIN Ops |-> InitThread(Shape, Ops[t])]] /\ sched = <<>>
Next == \E t \in DOMAIN Ops :
            /\ Rounds = 0                     \* (free-running rounds need no schedules: only the initial state)
            /\ ~s.ths[t].fin
            /\ LET r == CStep(Shape, s.g, s.ths[t], t) IN s' = [g |-> r.g, ths |-> [s.ths EXCEPT ![t] = r.th]]
            /\ sched' = Append(sched, t)
Spec == Init /\ [][Next]_vars

\* model checking the property needs neither the schedule nor the tags (history): states are identified without them
SView == [g |-> s.g, ths |-> [t \in DOMAIN s.ths |-> [s.ths[t] EXCEPT !.tags = <<>>]]]

Done == \A t \in DOMAIN Ops : s.ths[t].fin
InvSequential == Done => SequentialResults(Shape, Ops, s)
\* dataset ops name the member by its rank among the datasets (that is how the harness addresses it)
SetRank(i) == Cardinality({j \in 1..i : Shape.members[j].kind = "set"})
HarnessOps == [t \in DOMAIN Ops |-> IF Ops[t].op = "set" THEN [op |-> "set", i |-> Ops[t].i, rank |-> SetRank(Ops[t].i)] ELSE [op |-> Ops[t].op, i |-> 0, rank |-> 0]]
\* free-running rounds (no schedule): one event per round
FreeEmit == Rounds = 0 \/ PrintT(<<"REPLAY", ToJson([k \in 1..Rounds |-> [ev |-> "ConcFree", a |-> [shape |-> Shape, ops |-> HarnessOps, round |-> k, big |-> Big]]])>>)
Emit == (Rounds = 0 /\ Done) => PrintT(<<"REPLAY", ToJson(<<[ev |-> "ConcRun", a |-> [shape |-> Shape, ops |-> HarnessOps, schedule |-> sched]]>>)>>)
=============================================================================
