------------------------------ MODULE StamApi ------------------------------
(* What the public (high-level) API must answer in a given specification   *)
(* state: the observation side of C01 / C02 / C03 / C10.                    *)
(* The harness logs `api` after every mutating call; TLC recomputes the    *)
(* same record from the specification state and compares.                   *)
EXTENDS StamStore

RowTotal(m) == SumSeq([i \in DOMAIN m |-> Len(m[i][3])])

ApiRes(st, r) ==
    IF ~st.res[r].alive THEN [anns |-> <<>>, meta |-> <<>>, tsel_anns |-> <<>>, tsel_len |-> <<>>]
    ELSE [anns |-> AnnsOnResText(st, r),
          meta |-> AnnsOnResMeta(st, r),
          tsel_anns |-> [t \in DOMAIN st.res[r].tsel |-> AnnsOnTsel(st, r, t)],
          tsel_len  |-> [t \in DOMAIN st.res[r].tsel |-> Len(AnnsOnTsel(st, r, t))]]

ApiAnn(st, x) ==
    IF ~st.anns[x].alive THEN [rev |-> <<>>, revh |-> <<>>, intargets |-> <<>>, tsels |-> <<>>, data |-> <<>>]
    ELSE [rev |-> AnnsOnAnn(st, x),
          revh |-> AnnsOnAnn(st, x),
          intargets |-> SortedInts(Range(AnnTargets(st, x))),
          tsels |-> AnnText(st, x),
          data |-> st.anns[x].data]

ApiKey(st, s, k) ==
    IF ~st.sets[s].keys[k].alive THEN [data |-> <<>>, anns |-> <<>>, meta |-> <<>>, count |-> 0]
    ELSE [data |-> DataOfKey(st, s, k), anns |-> AnnsUsingKey(st, s, k),
          meta |-> AnnsOnKey(st, s, k), count |-> Len(AnnsUsingKey(st, s, k))]

ApiData(st, s, d) ==
    IF ~st.sets[s].data[d].alive THEN [anns |-> <<>>, len |-> 0, meta |-> <<>>]
    ELSE [anns |-> AnnsUsingData(st, s, d), len |-> Len(AnnsUsingData(st, s, d)), meta |-> AnnsOnData(st, s, d)]

ApiSet(st, s) ==
    IF ~st.sets[s].alive THEN [meta |-> <<>>, keys |-> <<>>, data |-> <<>>]
    ELSE [meta |-> AnnsOnSet(st, s),
          keys |-> [k \in DOMAIN st.sets[s].keys |-> ApiKey(st, s, k)],
          data |-> [d \in DOMAIN st.sets[s].data |-> ApiData(st, s, d)]]

ApiExpected(st, api) ==
    [has  |-> TRUE,
     res  |-> [r \in DOMAIN st.res |-> ApiRes(st, r)],
     anns |-> [x \in DOMAIN st.anns |-> ApiAnn(st, x)],
     sets |-> [s \in DOMAIN st.sets |-> ApiSet(st, s)],
     totals |-> <<RowTotal(st.ix.dda), RowTotal(st.ix.trm), RowTotal(st.ix.ram), RowTotal(st.ix.sam),
                  RowTotal(st.ix.aam), 0, RowTotal(st.ix.kam), RowTotal(st.ix.dam)>>,
     exercise |-> "ok"]

ApiOK(st, api) == api = ApiExpected(st, api)

----------------------------------------------------------------------------
(* Read-only events.  ReadOK returns [ok, expected].                        *)

\* C03: Lookup of a token of a kind: a = [kind, ref, set: ref]; logged result r.res (0 = not found)
LookupExpected(st, a) ==
    CASE a.kind = "res" -> ResolveRes(st, a.ref)
      [] a.kind = "set" -> ResolveSet(st, a.ref)
      [] a.kind = "ann" -> ResolveAnn(st, a.ref)
      [] a.kind = "key" -> LET s == ResolveSet(st, a.set) IN IF s = 0 THEN 0 ELSE ResolveKey(st.sets[s], a.ref)
      [] a.kind = "data" -> LET s == ResolveSet(st, a.set) IN IF s = 0 THEN 0 ELSE ResolveData(st.sets[s], a.ref)
      [] OTHER -> 0

\* the identifier the API reports for the found item must be the one the item carries
LookupIdExpected(st, a, h) ==
    IF h = 0 THEN ""
    ELSE CASE a.kind = "res" -> st.res[h].id
           [] a.kind = "set" -> st.sets[h].id
           [] a.kind = "ann" -> st.anns[h].id
           [] a.kind = "key" -> st.sets[ResolveSet(st, a.set)].keys[h].id
           [] OTHER -> st.sets[ResolveSet(st, a.set)].data[h].id

ReadOK(st, r) ==
    CASE r.ev = "Lookup" ->
           LET h == LookupExpected(st, r.a)
               exp == [h |-> h, id |-> LookupIdExpected(st, r.a, h)]
           IN [ok |-> r.outcome = "ok" /\ r.res = h /\ r.api.id = exp.id, expected |-> exp]
      [] OTHER -> [ok |-> FALSE, expected |-> [h |-> -1, id |-> "unknown event"]]
=============================================================================
