-------------------------- MODULE StamConcurrency --------------------------
(* Concurrent readers of one shared store (C20).                            *)
(*                                                                         *)
(* The only shared state that "read-only" operations touch is interior-     *)
(* mutable: the serialisation mode cell (ONE cell shared by every clone of  *)
(* the store's Config) and the changed flag of every stand-off member.      *)
(* Every access is one atomic step (the library's yield points sit at the   *)
(* entry of the accessors, before the lock is taken):                        *)
(*   read_mode / write_mode / read_changed / write_changed / write_unchanged *)
(*                                                                         *)
(* Serialising a stand-off member m:                                        *)
(*   rm: read mode; "no" -> the member is written inline                    *)
(*   rc: read changed[m]; unchanged -> "@include" is written                *)
(*   w1: mode := no;  (the stand-off file is written: the member is         *)
(*       serialised again, nested)   w2: mode := allow                      *)
(*   wu: changed[m] := FALSE;  "@include" is written                        *)
(* store.to_json_string serialises every member in order;                   *)
(* dataset.to_json_string is  W1: mode := no; serialise the dataset;        *)
(* W2: mode := allow.                                                        *)
(*                                                                         *)
(* shape  = [members |-> seq of [kind, standoff, changed]]                  *)
(* ops[t] = [op |-> "store"] or [op |-> "set", i |-> member index]           *)
EXTENDS StamBase

\* TRUE: the code as it is (one mode cell for all threads); FALSE: the repaired design (a mode per thread)
CONSTANT SharedMode

Frame(mi, ph) == <<mi, ph>>

NThreads == 3
InitGlobal(shape) == [mode |-> [t \in 1..NThreads |-> "allow"], changed |-> [i \in DOMAIN shape.members |-> shape.members[i].changed]]

\* skip the members that are not stand-off (they are written inline without touching shared state)
RECURSIVE Advance(_, _)
Advance(shape, th) ==
    IF th.next > Len(shape.members) THEN [th EXCEPT !.fin = TRUE]
    ELSE IF shape.members[th.next].standoff
         THEN [th EXCEPT !.stk = <<Frame(th.next, "rm")>>, !.next = th.next + 1]
         ELSE Advance(shape, [th EXCEPT !.forms = Append(@, "inline"), !.next = th.next + 1])

InitThread(shape, op) ==
    LET th0 == [stk |-> <<>>, forms |-> <<>>, tags |-> <<>>, fin |-> FALSE, next |-> 1, op |-> op.op]
    IN IF op.op = "store" THEN Advance(shape, th0)
       ELSE [th0 EXCEPT !.stk = <<Frame(op.i, "W1")>>]

Top(th) == th.stk[Len(th.stk)]
SetTop(th, ph) == [th EXCEPT !.stk[Len(th.stk)] = Frame(Top(th)[1], ph)]
Pop(th) == [th EXCEPT !.stk = SubSeq(@, 1, Len(@) - 1)]
Tag(th, t) == [th EXCEPT !.tags = Append(@, t)]

\* a member has been serialised in the given form: return to whoever asked for it
Return(shape, th, form) ==
    LET p == Pop(th)
    IN IF p.stk = <<>>
       THEN Advance(shape, [p EXCEPT !.forms = Append(@, form)])               \* a member of the store
       ELSE IF Top(p)[2] = "W2" THEN [p EXCEPT !.forms = <<form>>]              \* the dataset of dataset.to_json_string
       ELSE p                                                                   \* content of a stand-off file (not observed)

\* one atomic step of thread th: the access at its yield point plus the code up to the next yield point; [g, th]
CStep(shape, g, th, me) ==
    LET mi == Top(th)[1]
        ph == Top(th)[2]
        mode == g.mode[me]
        SetMode(v) == [g EXCEPT !.mode = IF SharedMode THEN [t \in 1..NThreads |-> v] ELSE [@ EXCEPT ![me] = v]]
    IN CASE ph = "rm" -> [g |-> g, th |-> IF mode = "allow" THEN SetTop(Tag(th, "read_mode"), "rc") ELSE Return(shape, Tag(th, "read_mode"), "inline")]
         [] ph = "rc" -> [g |-> g, th |-> IF g.changed[mi] THEN SetTop(Tag(th, "read_changed"), "w1") ELSE Return(shape, Tag(th, "read_changed"), "include")]
         [] ph = "w1" -> [g |-> SetMode("no"),
                          th |-> LET t1 == SetTop(Tag(th, "write_mode"), "w2") IN [t1 EXCEPT !.stk = Append(@, Frame(mi, "rm"))]]
         [] ph = "w2" -> [g |-> SetMode("allow"), th |-> SetTop(Tag(th, "write_mode"), "wu")]
         [] ph = "wu" -> [g |-> [g EXCEPT !.changed[mi] = FALSE], th |-> Return(shape, Tag(th, "write_unchanged"), "include")]
         [] ph = "W1" -> [g |-> SetMode("no"),
                          th |-> LET t1 == SetTop(Tag(th, "write_mode"), "W2")
                                 IN IF shape.members[mi].standoff THEN [t1 EXCEPT !.stk = Append(@, Frame(mi, "rm"))]
                                    ELSE [t1 EXCEPT !.forms = <<"inline">>]]
         [] OTHER     -> [g |-> SetMode("allow"), th |-> [Pop(Tag(th, "write_mode")) EXCEPT !.fin = TRUE]]      \* "W2"

\* the whole system under a schedule (sequence of thread indices); a finished thread ignores its turn
RunSchedule(shape, ops, schedule) ==
    LET init == [g |-> InitGlobal(shape), ths |-> [t \in DOMAIN ops |-> InitThread(shape, ops[t])]]
        one(s, t) == IF s.ths[t].fin THEN s
                     ELSE LET r == CStep(shape, s.g, s.ths[t], t) IN [g |-> r.g, ths |-> [s.ths EXCEPT ![t] = r.th]]
    IN FoldL(one, init, schedule)

\* a thread running alone on the initial store
RECURSIVE RunAlone(_, _, _)
RunAlone(shape, g, th) == IF th.fin THEN th ELSE LET r == CStep(shape, g, th, 1) IN RunAlone(shape, r.g, r.th)
Alone(shape, op) == RunAlone(shape, InitGlobal(shape), InitThread(shape, op))

Observed(th) == [tags |-> th.tags, forms |-> th.forms]

\* C20: every thread obtains the result it would obtain running alone
SequentialResults(shape, ops, final) ==
    \A t \in DOMAIN ops : final.ths[t].fin => final.ths[t].forms = Alone(shape, ops[t]).forms

\* a ConcRun event: a = [shape, ops, schedule]; api = [threads: seq of [tags, forms]]
ConcExpected(a) ==
    LET f == RunSchedule(a.shape, a.ops, a.schedule) IN [t \in DOMAIN a.ops |-> Observed(f.ths[t])]
ConcConforms(r) == r.outcome = "ok" /\ r.api.threads = ConcExpected(r.a)
ConcSequential(r) == SequentialResults(r.a.shape, r.a.ops, RunSchedule(r.a.shape, r.a.ops, r.a.schedule))
=============================================================================
