-------------------------- MODULE StamConcurrency --------------------------
(* Concurrent readers of one shared store (C20).                            *)
(*                                                                         *)
(* The only shared state that "read-only" operations touch is interior-     *)
(* mutable: the serialisation mode cell (ONE cell shared by every clone of  *)
(* the store's Config) and the changed flag of every stand-off member.      *)
(* Every access is one atomic step (the library's yield points sit at the   *)
(* entry of the accessors, before the lock is taken):                        *)
(*   read_mode / write_mode / read_changed / write_changed / write_unchanged *)
(*                                                                         *)
(* Serialising a stand-off member m:                                        *)
(*   rm: read mode; "no" -> the member is written inline                    *)
(*   rc: read changed[m]; unchanged -> "@include" is written                *)
(*   w1: mode := no;  (the stand-off file is written: the member is         *)
(*       serialised again, nested)   w2: mode := allow                      *)
(*   wu: changed[m] := FALSE;  "@include" is written                        *)
(* store.to_json_string serialises every member in order;                   *)
(* dataset.to_json_string is  W1: mode := no; serialise the dataset;        *)
(* W2: mode := allow.                                                        *)
(*                                                                         *)
(* A stand-off resource kept as plain text (fmt "txt") is flushed without    *)
(* touching the mode:  rm, rc, (write the file), wu.                         *)
(* shape  = [members |-> seq of [kind, standoff, changed, fmt]]             *)
(* ops[t] = [op |-> "store"] or [op |-> "set", i |-> member index]           *)
EXTENDS StamBase

\* TRUE: the code as it is (one mode cell for all threads); FALSE: the repaired design (a mode per thread)
CONSTANT SharedMode

Frame(mi, ph) == <<mi, ph>>

NThreads == 3
\* file[m]: abstract content of the stand-off file of member m
\*   "saved" (written before the readers started), "missing", "empty" (just truncated), "full" (the member's content),
\*   "stub" (only an "@include" of the file itself), "corrupt" (a shorter document written over a longer one)
InitGlobal(shape) == [mode |-> [t \in 1..NThreads |-> "allow"], changed |-> [i \in DOMAIN shape.members |-> shape.members[i].changed],
                      file |-> [i \in DOMAIN shape.members |->
                                   IF ~shape.members[i].standoff THEN "none"
                                   ELSE IF shape.members[i].kind = "res" /\ shape.members[i].changed THEN "missing" ELSE "saved"]]

\* a JSON stand-off file is truncated when it is opened and written (from offset 0) when the serialisation has finished
WriteOver(existing, form) ==
    IF form = "inline" THEN "full"
    ELSE IF existing \in {"full", "corrupt", "saved"} THEN "corrupt" ELSE "stub"

\* skip the members that are not stand-off (they are written inline without touching shared state)
RECURSIVE Advance(_, _)
Advance(shape, th) ==
    IF th.next > Len(shape.members) THEN [th EXCEPT !.fin = TRUE]
    ELSE IF shape.members[th.next].standoff
         THEN [th EXCEPT !.stk = <<Frame(th.next, "rm")>>, !.next = th.next + 1]
         ELSE Advance(shape, [th EXCEPT !.forms = Append(@, "inline"), !.next = th.next + 1])

\* op "par": a reader that only iterates, searches and queries (also through the parallel adaptors); it touches no
\* shared mutable state, so it takes no step of the model; what it saw is compared with what it sees alone (see below)
InitThread(shape, op) ==
    LET th0 == [stk |-> <<>>, forms |-> <<>>, tags |-> <<>>, fin |-> FALSE, next |-> 1, op |-> op.op]
    IN IF op.op = "store" THEN Advance(shape, th0)
       ELSE IF op.op = "par" THEN [th0 EXCEPT !.fin = TRUE, !.forms = <<"par">>]
       ELSE [th0 EXCEPT !.stk = <<Frame(op.i, "W1")>>]

Top(th) == th.stk[Len(th.stk)]
SetTop(th, ph) == [th EXCEPT !.stk[Len(th.stk)] = Frame(Top(th)[1], ph)]
Pop(th) == [th EXCEPT !.stk = SubSeq(@, 1, Len(@) - 1)]
Tag(th, t) == [th EXCEPT !.tags = Append(@, t)]

\* a member has been serialised in the given form: return to whoever asked for it; [g, th]
Return(shape, g, th, form) ==
    LET p == Pop(th)
    IN IF p.stk = <<>>
       THEN [g |-> g, th |-> Advance(shape, [p EXCEPT !.forms = Append(@, form)])]               \* a member of the store
       ELSE IF Top(p)[2] = "W2" THEN [g |-> g, th |-> [p EXCEPT !.forms = <<form>>]]              \* the dataset of dataset.to_json_string
       ELSE [g |-> [g EXCEPT !.file[Top(p)[1]] = WriteOver(@, form)], th |-> p]                   \* content of a stand-off file: written now

\* one atomic step of thread th: the access at its yield point plus the code up to the next yield point; [g, th]
CStep(shape, g, th, me) ==
    LET mi == Top(th)[1]
        ph == Top(th)[2]
        mode == g.mode[me]
        SetMode(v) == [g EXCEPT !.mode = IF SharedMode THEN [t \in 1..NThreads |-> v] ELSE [@ EXCEPT ![me] = v]]
    IN CASE ph = "rm" -> IF mode = "allow" THEN [g |-> g, th |-> SetTop(Tag(th, "read_mode"), "rc")] ELSE Return(shape, g, Tag(th, "read_mode"), "inline")
         [] ph = "rc" -> IF ~g.changed[mi] THEN Return(shape, g, Tag(th, "read_changed"), "include")
                         ELSE IF shape.members[mi].fmt = "txt"
                              THEN [g |-> [g EXCEPT !.file[mi] = "full"], th |-> SetTop(Tag(th, "read_changed"), "wu")]     \* the text file is written
                              ELSE [g |-> g, th |-> SetTop(Tag(th, "read_changed"), "w1")]
         [] ph = "w1" -> [g |-> [SetMode("no") EXCEPT !.file[mi] = "empty"],                                               \* the file is opened
                          th |-> LET t1 == SetTop(Tag(th, "write_mode"), "w2") IN [t1 EXCEPT !.stk = Append(@, Frame(mi, "rm"))]]
         [] ph = "w2" -> [g |-> SetMode("allow"), th |-> SetTop(Tag(th, "write_mode"), "wu")]
         [] ph = "wu" -> Return(shape, [g EXCEPT !.changed[mi] = FALSE], Tag(th, "write_unchanged"), "include")
         [] ph = "W1" -> [g |-> SetMode("no"),
                          th |-> LET t1 == SetTop(Tag(th, "write_mode"), "W2")
                                 IN IF shape.members[mi].standoff THEN [t1 EXCEPT !.stk = Append(@, Frame(mi, "rm"))]
                                    ELSE [t1 EXCEPT !.forms = <<"inline">>]]
         [] OTHER     -> [g |-> SetMode("allow"), th |-> [Pop(Tag(th, "write_mode")) EXCEPT !.fin = TRUE]]      \* "W2"

\* the whole system under a schedule (sequence of thread indices); a finished thread ignores its turn
RunSchedule(shape, ops, schedule) ==
    LET init == [g |-> InitGlobal(shape), ths |-> [t \in DOMAIN ops |-> InitThread(shape, ops[t])]]
        one(s, t) == IF s.ths[t].fin THEN s
                     ELSE LET r == CStep(shape, s.g, s.ths[t], t) IN [g |-> r.g, ths |-> [s.ths EXCEPT ![t] = r.th]]
    IN FoldL(one, init, schedule)

\* a thread running alone
RECURSIVE RunAlone(_, _, _)
RunAlone(shape, g, th) == IF th.fin THEN [g |-> g, th |-> th] ELSE LET r == CStep(shape, g, th, 1) IN RunAlone(shape, r.g, r.th)
Alone(shape, op) == RunAlone(shape, InitGlobal(shape), InitThread(shape, op)).th
\* the readers one after the other
RunSequential(shape, ops) == FoldL(LAMBDA g, t : RunAlone(shape, g, InitThread(shape, ops[t])).g, InitGlobal(shape), [t \in DOMAIN ops |-> t])

Observed(th) == [tags |-> th.tags, forms |-> th.forms]
\* what is seen of a stand-off file afterwards
FileSeen(f) == IF f \in {"saved", "full"} THEN "complete" ELSE IF f = "stub" THEN "selfinclude" ELSE f
FilesExpected(shape, g) == [i \in DOMAIN shape.members |-> FileSeen(g.file[i])]

\* C20: every thread obtains the result it would obtain running alone, and the stand-off files end up as the readers,
\* taking turns, would have left them
SequentialResults(shape, ops, final) ==
    /\ \A t \in DOMAIN ops : final.ths[t].fin => final.ths[t].forms = Alone(shape, ops[t]).forms
    /\ (\A t \in DOMAIN ops : final.ths[t].fin) => FilesExpected(shape, final.g) = FilesExpected(shape, RunSequential(shape, ops))

\* a ConcRun event: a = [shape, ops, schedule]; api = [threads: seq of [tags, forms], files, leftovers]
ConcExpected(a) ==
    LET f == RunSchedule(a.shape, a.ops, a.schedule) IN [t \in DOMAIN a.ops |-> Observed(f.ths[t])]
ConcFilesExpected(a) == LET f == RunSchedule(a.shape, a.ops, a.schedule) IN FilesExpected(a.shape, f.g)
\* (the digest a "par" reader logs must be the digest the same reader logged running alone before the threads started)
WithAlone(exp, r) == [t \in DOMAIN exp |-> IF r.a.ops[t].op = "par" THEN [exp[t] EXCEPT !.forms = <<r.api.alone[t]>>] ELSE exp[t]]
ConcConforms(r) == r.outcome = "ok" /\ r.api.threads = WithAlone(ConcExpected(r.a), r) /\ r.api.files = ConcFilesExpected(r.a) /\ r.api.leftovers = <<>>
ConcSequential(r) == SequentialResults(r.a.shape, r.a.ops, RunSchedule(r.a.shape, r.a.ops, r.a.schedule))

----------------------------------------------------------------------------
(* Free-running readers (ConcFree): real threads released together, no scheduler. Only every thread's own sequence  *)
(* of accesses and its output are observed; the interleaving is not.  The run conforms iff SOME interleaving of the *)
(* model explains all of it (the schedule is the unlogged nondeterminism that TLC resolves).                        *)
FreeSucc(shape, obs, s) ==
    {n \in {LET r == CStep(shape, s.g, s.ths[t], t) IN [g |-> r.g, ths |-> [s.ths EXCEPT ![t] = r.th]] : t \in {u \in DOMAIN s.ths : ~s.ths[u].fin}} :
        \A t \in DOMAIN n.ths : Len(n.ths[t].tags) <= Len(obs[t].tags) /\ n.ths[t].tags = SubSeq(obs[t].tags, 1, Len(n.ths[t].tags))}
RECURSIVE FreeReach(_, _, _, _)
FreeReach(shape, obs, frontier, seen) ==
    IF frontier = {} THEN seen
    ELSE LET nxt == (UNION {FreeSucc(shape, obs, s) : s \in frontier}) \ seen IN FreeReach(shape, obs, nxt, seen \cup nxt)
FreeFinals(a, api) ==
    LET init == [g |-> InitGlobal(a.shape), ths |-> [t \in DOMAIN a.ops |-> InitThread(a.shape, a.ops[t])]]
    IN {s \in FreeReach(a.shape, api.threads, {init}, {init}) :
          \* (file operations of free-running threads are not atomic with the accesses to the shared cells: the files are
          \*  not matched against one interleaving; FreeSequential below states what they must be)
          \A t \in DOMAIN a.ops : s.ths[t].fin /\ (IF a.ops[t].op = "par" THEN api.threads[t] = [tags |-> <<>>, forms |-> <<api.alone[t]>>]
                                                     ELSE Observed(s.ths[t]) = api.threads[t])}
FreeConforms(r) == r.outcome = "ok" /\ Len(r.api.threads) = Len(r.a.ops) /\ r.api.leftovers = <<>> /\ FreeFinals(r.a, r.api) # {}
FreeSequential(r) == /\ \A t \in DOMAIN r.a.ops : r.a.ops[t].op = "par" \/ r.api.threads[t].forms = Alone(r.a.shape, r.a.ops[t]).forms
                     /\ r.api.files = FilesExpected(r.a.shape, RunSequential(r.a.shape, r.a.ops))
=============================================================================
