----------------------------- MODULE StamStore -----------------------------
(* The STAM annotation store as a state machine (properties C01 C02 C03    *)
(* C10 C14; the stores every other module works on).                        *)
(*                                                                         *)
(* Style: every public mutating call of AnnotationStore is ONE operator    *)
(*    Op(st, args) == [outcome |-> "ok" | "err", st |-> state', res |-> h] *)
(* on an explicit state record `st`.  The model-checking module turns them *)
(* into actions (st' = Op(st, a).st), the trace module into checks         *)
(* (Canon(logged post) = Op(st, logged args).st).  A failing call returns  *)
(* the state it was given (C14).                                           *)
(*                                                                         *)
(* Handles are 1-based positions in the item sequences (0 = none); they    *)
(* are never reused: a removed item leaves a tombstone.                    *)
(*                                                                         *)
(* Decisions that keep the specification from demanding more than the      *)
(* properties state (each is also listed in DESIGN.md section 4):          *)
(*  - leaves of Multi/Composite selectors are kept in a canonical total    *)
(*    order; the code's order is compared after the same canonicalisation  *)
(*    and separately required to be textual for the text leaves;           *)
(*  - an AnnotationSelector *with offset* on an annotation that has no     *)
(*    single text selection is outside the specified domain (Either);      *)
(*  - RemoveData / RemoveKey of an item that does not resolve may answer   *)
(*    ok or err, but must not change anything.                             *)
EXTENDS StamOffsets

----------------------------------------------------------------------------
(* Values: [t, s, n, l]  (type tag, string payload, integer payload, list) *)
NullVal == [t |-> "null", s |-> "", n |-> 0, l |-> <<>>]

(* Tombstones (what a removed slot looks like) *)
TombRes  == [id |-> "", alive |-> FALSE, text |-> <<>>, tsel |-> <<>>]
TombKey  == [id |-> "", alive |-> FALSE]
TombData == [id |-> "", alive |-> FALSE, key |-> 0, val |-> NullVal]
TombSet  == [id |-> "", alive |-> FALSE, keys |-> <<>>, data |-> <<>>,
             kidm |-> {}, didm |-> {}, kdm |-> <<>>]
TombAnn  == [id |-> "", alive |-> FALSE, kind |-> "", leaves |-> <<>>, data |-> <<>>]

EmptyIx == [dda |-> <<>>,   \* (set, data)      -> annotations using the data
            trm |-> <<>>,   \* (res, textsel)   -> annotations selecting that text
            ram |-> <<>>,   \* (res, 0)         -> annotations with a ResourceSelector on it
            sam |-> <<>>,   \* (set, 0)         -> annotations with a DataSetSelector on it
            aam |-> <<>>,   \* (ann, 0)         -> annotations with an AnnotationSelector on it
            kam |-> <<>>,   \* (set, key)       -> annotations with a DataKeySelector on it
            dam |-> <<>>]   \* (set, data)      -> annotations with an AnnotationDataSelector on it

InitState == [res |-> <<>>, sets |-> <<>>, anns |-> <<>>,
              idm |-> [res |-> {}, set |-> {}, ann |-> {}],
              ix |-> EmptyIx]

\* id maps are sets of <<id, handle>>
IdLookup(m, id) == IF \E e \in m : e[1] = id THEN (CHOOSE e \in m : e[1] = id)[2] ELSE 0
IdAdd(m, id, h) == IF id = "" THEN m ELSE {e \in m : e[1] # id} \cup {<<id, h>>}
IdRemoveHandles(m, H) == {e \in m : e[2] \notin H}

----------------------------------------------------------------------------
(* Liveness and resolution of references (C03)                             *)

ResAlive(st, h) == h \in 1..Len(st.res) /\ st.res[h].alive
SetAlive(st, h) == h \in 1..Len(st.sets) /\ st.sets[h].alive
AnnAlive(st, h) == h \in 1..Len(st.anns) /\ st.anns[h].alive
KeyAlive(set, h) == h \in 1..Len(set.keys) /\ set.keys[h].alive
DataAlive(set, h) == h \in 1..Len(set.data) /\ set.data[h].alive

LiveRes(st)  == {h \in 1..Len(st.res)  : st.res[h].alive}
LiveSets(st) == {h \in 1..Len(st.sets) : st.sets[h].alive}
LiveAnns(st) == {h \in 1..Len(st.anns) : st.anns[h].alive}

\* a reference: [by |-> "id" | "h" | "temp" | "none", id, h, tl, tn]
\*   "temp" is the temporary-identifier syntax "!<tl><tn>"
NoRef == [by |-> "none", id |-> "", h |-> 0, tl |-> "", tn |-> 0]
ById(id) == [by |-> "id", id |-> id, h |-> 0, tl |-> "", tn |-> 0]
ByH(h) == [by |-> "h", id |-> "", h |-> h, tl |-> "", tn |-> 0]
ByTemp(l, n) == [by |-> "temp", id |-> "", h |-> 0, tl |-> l, tn |-> n]

TempLetter == [res |-> "R", set |-> "S", ann |-> "A", key |-> "K", data |-> "D"]

\* Resolve: the live item of that kind designated by the reference, else 0
Resolve(kind, idm, n, Alive(_), ref) ==
    LET h == CASE ref.by = "h"    -> ref.h
               [] ref.by = "id"   -> IdLookup(idm, ref.id)
               [] ref.by = "temp" -> IF ref.tl = TempLetter[kind] THEN ref.tn + 1 ELSE 0
               [] OTHER           -> 0
    IN IF h \in 1..n /\ Alive(h) THEN h ELSE 0

ResolveRes(st, ref) == Resolve("res", st.idm.res, Len(st.res), LAMBDA h : st.res[h].alive, ref)
ResolveSet(st, ref) == Resolve("set", st.idm.set, Len(st.sets), LAMBDA h : st.sets[h].alive, ref)
ResolveAnn(st, ref) == Resolve("ann", st.idm.ann, Len(st.anns), LAMBDA h : st.anns[h].alive, ref)
ResolveKey(set, ref) == Resolve("key", set.kidm, Len(set.keys), LAMBDA h : set.keys[h].alive, ref)
ResolveData(set, ref) == Resolve("data", set.didm, Len(set.data), LAMBDA h : set.data[h].alive, ref)

----------------------------------------------------------------------------
(* Leaves of a target.  leaf == [k, a, b, c, m]                            *)
(*   "Text":    a = resource, b = text selection, m = offset mode          *)
(*   "Res":     a = resource                                               *)
(*   "Ann":     a = annotation (no text part)                              *)
(*   "AnnText": a = annotation, b = text selection, c = resource, m = mode *)
(*   "Set":     a = dataset     "Key": a = dataset, b = key                *)
(*   "Data":    a = dataset, b = data                                      *)
Leaf(k, a, b, c, m) == [k |-> k, a |-> a, b |-> b, c |-> c, m |-> m]

IsTextLeaf(l) == l.k \in {"Text", "AnnText"}
LeafRes(l) == IF l.k = "Text" THEN l.a ELSE l.c        \* for text leaves
LeafRange(st, l) == st.res[LeafRes(l)].tsel[l.b]        \* <<begin, end>>

LeafRank(l) == CASE l.k \in {"Text", "AnnText"} -> 1
                 [] l.k = "Res" -> 2 [] l.k = "Set" -> 3 [] l.k = "Ann" -> 4
                 [] l.k = "Key" -> 5 [] OTHER -> 6

\* canonical strict order on leaves (total up to equality)
LeafKey(st, l) ==
    IF IsTextLeaf(l)
    THEN <<1, LeafRes(l), LeafRange(st, l)[1], LeafRange(st, l)[2], IF l.k = "Text" THEN 0 ELSE l.a, l.m>>
    ELSE <<LeafRank(l), l.a, l.b, 0, 0, 0>>

RECURSIVE TupleLess(_, _)
TupleLess(x, y) == IF x = <<>> THEN FALSE
                   ELSE IF Head(x) < Head(y) THEN TRUE
                   ELSE IF Head(x) > Head(y) THEN FALSE
                   ELSE TupleLess(Tail(x), Tail(y))

LeafLess(st, x, y) == TupleLess(LeafKey(st, x), LeafKey(st, y))
CanonLeaves(st, kind, leaves) ==
    IF kind \in {"Multi", "Composite"} THEN SortSeq(leaves, LAMBDA x, y : LeafLess(st, x, y)) ELSE leaves

\* the text ranges <<res, begin, end>> an annotation selects, in leaf order
TextOfLeaves(st, leaves) ==
    LET tl == SelectSeq(leaves, IsTextLeaf)
    IN [i \in DOMAIN tl |-> <<LeafRes(tl[i]), LeafRange(st, tl[i])[1], LeafRange(st, tl[i])[2]>>]

\* the single text selection of an annotation usable as container for relative offsets
HasSingleText(a) == a.kind = "Simple" /\ IsTextLeaf(a.leaves[1])

----------------------------------------------------------------------------
(* Building a target (AnnotationStore::selector / subselectors)            *)
(* Builder: [kind, a, b, off, subs]; kind in Text Res Ann Set Key Data      *)
(* Multi Composite Directional None; subs have the same shape.             *)

FindTsel(tsel, b, e) == IF \E i \in DOMAIN tsel : tsel[i] = <<b, e>>
                        THEN CHOOSE i \in DOMAIN tsel : tsel[i] = <<b, e>> ELSE 0

\* make <<b,e>> a known selection of resource r: [st, t]
KnowTsel(st, r, b, e) ==
    LET t == FindTsel(st.res[r].tsel, b, e)
    IN IF t # 0 THEN [st |-> st, t |-> t]
       ELSE [st |-> [st EXCEPT !.res[r].tsel = Append(@, <<b, e>>)],
             t |-> Len(st.res[r].tsel) + 1]

Fail(st) == [ok |-> FALSE, st |-> st, leaf |-> Leaf("", 0, 0, 0, 0)]

BuildLeaf(st, tb) ==
    CASE tb.kind = "Text" ->
           LET r == ResolveRes(st, tb.a)
           IN IF r = 0 \/ ~OffValid(Len(st.res[r].text), tb.off) THEN Fail(st)
              ELSE LET be == ResolveIn(0, Len(st.res[r].text), tb.off)
                       k == KnowTsel(st, r, be[1], be[2])
                   IN [ok |-> TRUE, st |-> k.st, leaf |-> Leaf("Text", r, k.t, 0, ModeOf(tb.off))]
      [] tb.kind = "Res" ->
           LET r == ResolveRes(st, tb.a)
           IN IF r = 0 THEN Fail(st) ELSE [ok |-> TRUE, st |-> st, leaf |-> Leaf("Res", r, 0, 0, 0)]
      [] tb.kind = "Ann" ->
           LET x == ResolveAnn(st, tb.a)
           IN IF x = 0 THEN Fail(st)
              ELSE IF ~tb.off.has THEN [ok |-> TRUE, st |-> st, leaf |-> Leaf("Ann", x, 0, 0, 0)]
              ELSE \* relative offset: the container is the target annotation's single text selection
                   LET cl == st.anns[x].leaves[1]
                       r == LeafRes(cl)
                       cr == LeafRange(st, cl)
                   IN IF ~OffValid(cr[2] - cr[1], tb.off) THEN Fail(st)
                      ELSE LET be == ResolveIn(cr[1], cr[2], tb.off)
                               k == KnowTsel(st, r, be[1], be[2])
                           IN [ok |-> TRUE, st |-> k.st, leaf |-> Leaf("AnnText", x, k.t, r, ModeOf(tb.off))]
      [] tb.kind = "Set" ->
           LET s == ResolveSet(st, tb.a)
           IN IF s = 0 THEN Fail(st) ELSE [ok |-> TRUE, st |-> st, leaf |-> Leaf("Set", s, 0, 0, 0)]
      [] tb.kind = "Key" ->
           LET s == ResolveSet(st, tb.a)
               k == IF s = 0 THEN 0 ELSE ResolveKey(st.sets[s], tb.b)
           IN IF k = 0 THEN Fail(st) ELSE [ok |-> TRUE, st |-> st, leaf |-> Leaf("Key", s, k, 0, 0)]
      [] tb.kind = "Data" ->
           LET s == ResolveSet(st, tb.a)
               d == IF s = 0 THEN 0 ELSE ResolveData(st.sets[s], tb.b)
           IN IF d = 0 THEN Fail(st) ELSE [ok |-> TRUE, st |-> st, leaf |-> Leaf("Data", s, d, 0, 0)]
      [] OTHER -> Fail(st)

\* inside the specified domain? (see module header: relative offset needs a single text selection)
LeafInDomain(st, tb) ==
    tb.kind = "Ann" /\ tb.off.has =>
        LET x == ResolveAnn(st, tb.a) IN x = 0 \/ HasSingleText(st.anns[x])

IsComplexKind(k) == k \in {"Multi", "Composite", "Directional"}

RECURSIVE BuildLeaves(_, _, _)
BuildLeaves(st, subs, acc) ==
    IF subs = <<>> THEN [ok |-> TRUE, st |-> st, leaves |-> acc]
    ELSE LET r == BuildLeaf(st, Head(subs))
         IN IF ~r.ok THEN [ok |-> FALSE, st |-> st, leaves |-> <<>>]
            ELSE BuildLeaves(r.st, Tail(subs), Append(acc, r.leaf))

\* [ok, st, kind, leaves]
BuildTarget(st, tb) ==
    IF IsComplexKind(tb.kind)
    THEN IF tb.subs = <<>> \/ \E i \in DOMAIN tb.subs : IsComplexKind(tb.subs[i].kind) \/ tb.subs[i].kind = "None"
         THEN [ok |-> FALSE, st |-> st, kind |-> "", leaves |-> <<>>]
         ELSE LET r == BuildLeaves(st, tb.subs, <<>>)
              IN IF ~r.ok THEN [ok |-> FALSE, st |-> st, kind |-> "", leaves |-> <<>>]
                 ELSE [ok |-> TRUE, st |-> r.st, kind |-> tb.kind,
                       leaves |-> CanonLeaves(r.st, tb.kind, r.leaves)]
    ELSE LET r == BuildLeaf(st, tb)
         IN IF ~r.ok THEN [ok |-> FALSE, st |-> st, kind |-> "", leaves |-> <<>>]
            ELSE [ok |-> TRUE, st |-> r.st, kind |-> "Simple", leaves |-> <<r.leaf>>]

TargetInDomain(st, tb) ==
    IF IsComplexKind(tb.kind) THEN \A i \in DOMAIN tb.subs : LeafInDomain(st, tb.subs[i])
    ELSE LeafInDomain(st, tb)

----------------------------------------------------------------------------
(* Data vocabulary (C10): AnnotationDataSet::insert_data                    *)
(* data builder: [set: ref, key: ref, id: ref, val]                        *)

NewSet(id) == [id |-> id, alive |-> TRUE, keys |-> <<>>, data |-> <<>>,
               kidm |-> {}, didm |-> {}, kdm |-> <<>>]

\* [ok, set, d] : insert into one dataset record
SetInsertData(set, idref, keyref, val, safety) ==
    LET existing == ResolveData(set, idref)
    IN IF existing # 0 THEN [ok |-> TRUE, set |-> set, d |-> existing]    \* already exists: returned as is
       ELSE IF keyref.by = "none" THEN [ok |-> FALSE, set |-> set, d |-> 0]
       ELSE
         LET k0 == ResolveKey(set, keyref)
             newkey == k0 = 0
         IN IF newkey /\ keyref.by # "id" THEN [ok |-> FALSE, set |-> set, d |-> 0]
            ELSE
              LET set1 == IF newkey
                          THEN [set EXCEPT !.keys = Append(@, [id |-> keyref.id, alive |-> TRUE]),
                                           !.kidm = IdAdd(@, keyref.id, Len(set.keys) + 1)]
                          ELSE set
                  k == IF newkey THEN Len(set.keys) + 1 ELSE k0
                  row == AGet(set1.kdm, k, 0)
                  same == SelectSeq(row, LAMBDA d : set1.data[d].val = val)
              IN IF ~newkey /\ idref.by = "none" /\ safety /\ same # <<>>
                 THEN [ok |-> TRUE, set |-> set1, d |-> same[1]]         \* shared vocabulary item
                 ELSE LET d == Len(set1.data) + 1
                          newid == IF idref.by = "id" THEN idref.id ELSE ""
                      IN [ok |-> TRUE,
                          set |-> [set1 EXCEPT !.data = Append(@, [id |-> newid, alive |-> TRUE, key |-> k, val |-> val]),
                                               !.didm = IdAdd(@, newid, d),
                                               !.kdm = AAppend(@, k, 0, d)],
                          d |-> d]

\* AnnotationStore::insert_data : [ok, st, s, d]; an unknown dataset *id* creates the dataset
StoreInsertData(st, db, safety) ==
    LET s0 == ResolveSet(st, db.set)
        create == s0 = 0 /\ db.set.by = "id"
    IN IF s0 = 0 /\ ~create THEN [ok |-> FALSE, st |-> st, s |-> 0, d |-> 0]
       ELSE LET st1 == IF create
                       THEN [st EXCEPT !.sets = Append(@, NewSet(db.set.id)),
                                       !.idm.set = IdAdd(@, db.set.id, Len(st.sets) + 1)]
                       ELSE st
                s == IF create THEN Len(st.sets) + 1 ELSE s0
                r == SetInsertData(st1.sets[s], db.id, db.key, db.val, safety)
            IN IF ~r.ok THEN [ok |-> FALSE, st |-> st, s |-> 0, d |-> 0]
               ELSE [ok |-> TRUE, st |-> [st1 EXCEPT !.sets[s] = r.set], s |-> s, d |-> r.d]

RECURSIVE BuildData(_, _, _)
BuildData(st, dbs, acc) ==
    IF dbs = <<>> THEN [ok |-> TRUE, st |-> st, data |-> acc]
    ELSE LET r == StoreInsertData(st, Head(dbs), TRUE)
         IN IF ~r.ok THEN [ok |-> FALSE, st |-> st, data |-> <<>>]
            ELSE BuildData(r.st, Tail(dbs), Append(acc, <<r.s, r.d>>))

----------------------------------------------------------------------------
(* Index deltas for a new annotation (StoreCallbacks<Annotation>::inserted) *)

IxAddLeaf(ix, l, a) ==
    CASE l.k = "Text"    -> [ix EXCEPT !.trm = AAppend(@, l.a, l.b, a)]
      [] l.k = "AnnText" -> [ix EXCEPT !.trm = AAppend(@, l.c, l.b, a), !.aam = AAppend(@, l.a, 0, a)]
      [] l.k = "Ann"     -> [ix EXCEPT !.aam = AAppend(@, l.a, 0, a)]
      [] l.k = "Res"     -> [ix EXCEPT !.ram = AAppend(@, l.a, 0, a)]
      [] l.k = "Set"     -> [ix EXCEPT !.sam = AAppend(@, l.a, 0, a)]
      [] l.k = "Key"     -> [ix EXCEPT !.kam = AAppend(@, l.a, l.b, a)]
      [] OTHER           -> [ix EXCEPT !.dam = AAppend(@, l.a, l.b, a)]

IxAddAnn(ix, ann, a) ==
    LET ix1 == FoldL(LAMBDA acc, p : [acc EXCEPT !.dda = AAppend(@, p[1], p[2], a)], ix, ann.data)
    IN FoldL(LAMBDA acc, l : IxAddLeaf(acc, l, a), ix1, ann.leaves)

----------------------------------------------------------------------------
(* The mutating operations                                                 *)

Ok(st, h)  == [outcome |-> "ok", st |-> st, res |-> h]
Err(st)    == [outcome |-> "err", st |-> st, res |-> 0]

\* args: [id, text]
AddResource(st, a) ==
    IF a.id = "" THEN Err(st)
    ELSE LET h == IdLookup(st.idm.res, a.id)
         IN IF h # 0
            THEN IF st.res[h].text = a.text THEN Ok(st, h) ELSE Err(st)   \* identical re-insert returns the item
            ELSE LET n == Len(st.res) + 1
                 IN Ok([st EXCEPT !.res = Append(@, [id |-> a.id, alive |-> TRUE, text |-> a.text, tsel |-> <<>>]),
                                  !.idm.res = IdAdd(@, a.id, n)], n)

\* args: [id]
AddDataset(st, a) ==
    IF a.id = "" THEN Err(st)
    ELSE LET h == IdLookup(st.idm.set, a.id)
         IN IF h # 0
            THEN IF st.sets[h].keys = <<>> /\ st.sets[h].data = <<>> THEN Ok(st, h) ELSE Err(st)
            ELSE LET n == Len(st.sets) + 1
                 IN Ok([st EXCEPT !.sets = Append(@, NewSet(a.id)), !.idm.set = IdAdd(@, a.id, n)], n)

\* args: [set: ref, id]   (StoreFor<DataKey>::insert on the dataset)
AddKey(st, a) ==
    LET s == ResolveSet(st, a.set)
    IN IF s = 0 \/ a.id = "" THEN Err(st)
       ELSE LET k == IdLookup(st.sets[s].kidm, a.id)
            IN IF k # 0 THEN Ok(st, k)                                   \* keys are equal iff ids are equal
               ELSE LET n == Len(st.sets[s].keys) + 1
                    IN Ok([st EXCEPT !.sets[s].keys = Append(@, [id |-> a.id, alive |-> TRUE]),
                                     !.sets[s].kidm = IdAdd(@, a.id, n)], n)

\* args: [set, key, id, val, safety]   through AnnotationStore::insert_data (safety on) or the dataset (safety off)
InsertData(st, a) ==
    LET r == IF a.safety THEN StoreInsertData(st, a, TRUE)
             ELSE LET s == ResolveSet(st, a.set)
                  IN IF s = 0 THEN [ok |-> FALSE, st |-> st, s |-> 0, d |-> 0]
                     ELSE LET q == SetInsertData(st.sets[s], a.id, a.key, a.val, FALSE)
                          IN IF ~q.ok THEN [ok |-> FALSE, st |-> st, s |-> 0, d |-> 0]
                             ELSE [ok |-> TRUE, st |-> [st EXCEPT !.sets[s] = q.set], s |-> s, d |-> q.d]
    IN IF r.ok THEN Ok(r.st, r.d) ELSE Err(st)

\* args: [id, target: builder, data: seq of data builders]
Annotate(st, a) ==
    IF a.target.kind = "None" THEN Err(st)
    ELSE LET t == BuildTarget(st, a.target)
         IN IF ~t.ok THEN Err(st)
            ELSE LET d == BuildData(t.st, a.data, <<>>)
                 IN IF ~d.ok THEN Err(st)
                    ELSE LET ann == [id |-> a.id, alive |-> TRUE, kind |-> t.kind, leaves |-> t.leaves, data |-> d.data]
                             ex == IF a.id = "" THEN 0 ELSE IdLookup(d.st.idm.ann, a.id)
                         IN IF ex # 0
                            THEN IF d.st.anns[ex] = ann THEN Ok(d.st, ex) ELSE Err(st)
                            ELSE LET n == Len(d.st.anns) + 1
                                 IN Ok([d.st EXCEPT !.anns = Append(@, ann),
                                                    !.idm.ann = IdAdd(@, a.id, n),
                                                    !.ix = IxAddAnn(@, ann, n)], n)

\* which step of a rejected annotate fails (reported with a rejection: part of a finding's fingerprint)
AnnotateWhy(st, a) ==
    IF a.target.kind = "None" THEN "notarget"
    ELSE LET t == BuildTarget(st, a.target)
         IN IF ~t.ok THEN "target"
            ELSE IF ~BuildData(t.st, a.data, <<>>).ok THEN "data" ELSE "dupid"

----------------------------------------------------------------------------
(* Removal (C02)                                                           *)

\* annotations that point at an annotation in R
PointAt(st, R) == {a \in LiveAnns(st) : \E i \in DOMAIN st.anns[a].leaves :
                        st.anns[a].leaves[i].k \in {"Ann", "AnnText"} /\ st.anns[a].leaves[i].a \in R}

RECURSIVE Closure(_, _)
Closure(st, R) == LET N == R \cup PointAt(st, R) IN IF N = R THEN R ELSE Closure(st, N)

\* remove the annotations in R (already closed): tombstones, id map, every index
RemoveAnns(st, R) ==
    [st EXCEPT
       !.anns = [i \in DOMAIN st.anns |-> IF i \in R THEN TombAnn ELSE st.anns[i]],
       !.idm.ann = IdRemoveHandles(@, R),
       !.ix = [dda |-> APurge(st.ix.dda, R), trm |-> APurge(st.ix.trm, R), ram |-> APurge(st.ix.ram, R),
               sam |-> APurge(st.ix.sam, R), aam |-> ADropAs(APurge(st.ix.aam, R), R),
               kam |-> APurge(st.ix.kam, R), dam |-> APurge(st.ix.dam, R)]]

HasLeaf(ann, Test(_)) == \E i \in DOMAIN ann.leaves : Test(ann.leaves[i])

\* args: [ann: ref]
RemoveAnnotation(st, a) ==
    LET h == ResolveAnn(st, a.ann)
    IN IF h = 0 THEN Err(st) ELSE Ok(RemoveAnns(st, Closure(st, {h})), 0)

\* args: [res: ref]
RemoveResource(st, a) ==
    LET r == ResolveRes(st, a.res)
    IN IF r = 0 THEN Err(st)
       ELSE LET R0 == {x \in LiveAnns(st) : HasLeaf(st.anns[x], LAMBDA l :
                          (l.k \in {"Text", "Res"} /\ l.a = r) \/ (l.k = "AnnText" /\ l.c = r))}
                st1 == RemoveAnns(st, Closure(st, R0))
            IN Ok([st1 EXCEPT !.res[r] = TombRes,
                              !.idm.res = IdRemoveHandles(@, {r}),
                              !.ix.trm = ADropA(@, r), !.ix.ram = ADropA(@, r)], 0)

\* args: [set: ref]
RemoveDataset(st, a) ==
    LET s == ResolveSet(st, a.set)
    IN IF s = 0 THEN Err(st)
       ELSE LET R0 == {x \in LiveAnns(st) :
                          \/ \E i \in DOMAIN st.anns[x].data : st.anns[x].data[i][1] = s
                          \/ HasLeaf(st.anns[x], LAMBDA l : l.k \in {"Set", "Key", "Data"} /\ l.a = s)}
                st1 == RemoveAnns(st, Closure(st, R0))
            IN Ok([st1 EXCEPT !.sets[s] = TombSet,
                              !.idm.set = IdRemoveHandles(@, {s}),
                              !.ix.dda = ADropA(@, s), !.ix.sam = ADropA(@, s),
                              !.ix.kam = ADropA(@, s), !.ix.dam = ADropA(@, s)], 0)

\* remove the data items D (a set of handles) of dataset s; Keys = keys removed with them
RemoveDataItems(st, s, D, Keys, strict) ==
    LET pairs == {<<s, d>> : d \in D}
        Users == {x \in LiveAnns(st) : \E i \in DOMAIN st.anns[x].data : st.anns[x].data[i] \in pairs}
        Targeters == {x \in LiveAnns(st) : HasLeaf(st.anns[x], LAMBDA l :
                          (l.k = "Data" /\ l.a = s /\ l.b \in D) \/ (l.k = "Key" /\ l.a = s /\ l.b \in Keys))}
        Rest(x) == SelectSeq(st.anns[x].data, LAMBDA p : p \notin pairs)
        Survive == IF strict THEN {} ELSE {x \in Users : Rest(x) # <<>>}
        R == Closure(st, (Users \ Survive) \cup Targeters)
        \* surviving users lose exactly the removed pairs (and their index entries)
        st1 == [st EXCEPT !.anns = [i \in DOMAIN st.anns |->
                                      IF i \in Survive \ R THEN [st.anns[i] EXCEPT !.data = Rest(i)] ELSE st.anns[i]]]
        st2 == RemoveAnns(st1, R)
        kdm1 == LET m == st.sets[s].kdm
                    cleaned == [i \in DOMAIN m |-> <<m[i][1], m[i][2], Without(m[i][3], D)>>]
                IN SelectSeq(cleaned, LAMBDA e : e[3] # <<>> /\ e[1] \notin Keys)
    IN [st2 EXCEPT
          !.sets[s].data = [i \in DOMAIN st.sets[s].data |-> IF i \in D THEN TombData ELSE st.sets[s].data[i]],
          !.sets[s].keys = [i \in DOMAIN st.sets[s].keys |-> IF i \in Keys THEN TombKey ELSE st.sets[s].keys[i]],
          !.sets[s].didm = IdRemoveHandles(@, D),
          !.sets[s].kidm = IdRemoveHandles(@, Keys),
          !.sets[s].kdm = kdm1,
          !.ix.dda = SelectSeq(st2.ix.dda, LAMBDA e : ~(e[1] = s /\ e[2] \in D)),
          !.ix.dam = SelectSeq(st2.ix.dam, LAMBDA e : ~(e[1] = s /\ e[2] \in D)),
          !.ix.kam = SelectSeq(st2.ix.kam, LAMBDA e : ~(e[1] = s /\ e[2] \in Keys))]

\* args: [set: ref, data: ref, strict]; an item that does not resolve: no effect (outcome left open)
RemoveData(st, a) ==
    LET s == ResolveSet(st, a.set)
        d == IF s = 0 THEN 0 ELSE ResolveData(st.sets[s], a.data)
    IN IF d = 0 THEN [outcome |-> "either", st |-> st, res |-> 0]
       ELSE Ok(RemoveDataItems(st, s, {d}, {}, a.strict), 0)

\* args: [set: ref, key: ref, strict]
RemoveKey(st, a) ==
    LET s == ResolveSet(st, a.set)
        k == IF s = 0 THEN 0 ELSE ResolveKey(st.sets[s], a.key)
    IN IF k = 0 THEN [outcome |-> "either", st |-> st, res |-> 0]
       ELSE LET D == {d \in 1..Len(st.sets[s].data) : st.sets[s].data[d].alive /\ st.sets[s].data[d].key = k}
            IN Ok(RemoveDataItems(st, s, D, {k}, a.strict), 0)

StripAnnotationIds(st) ==
    Ok([st EXCEPT !.anns = [i \in DOMAIN st.anns |-> [st.anns[i] EXCEPT !.id = ""]],
                  !.idm.ann = {}], 0)

StripDataIds(st) ==
    Ok([st EXCEPT !.sets = [s \in DOMAIN st.sets |->
                              [st.sets[s] EXCEPT !.data = [d \in DOMAIN st.sets[s].data |-> [st.sets[s].data[d] EXCEPT !.id = ""]],
                                                 !.didm = {}]]], 0)

----------------------------------------------------------------------------
(* Dispatcher used by the model-checking, generator and trace modules      *)
Apply(st, ev, a) ==
    CASE ev = "AddResource"      -> AddResource(st, a)
      [] ev = "AddDataset"       -> AddDataset(st, a)
      [] ev = "AddKey"           -> AddKey(st, a)
      [] ev = "InsertData"       -> InsertData(st, a)
      [] ev = "Annotate"         -> Annotate(st, a)
      [] ev = "RemoveAnnotation" -> RemoveAnnotation(st, a)
      [] ev = "RemoveResource"   -> RemoveResource(st, a)
      [] ev = "RemoveDataset"    -> RemoveDataset(st, a)
      [] ev = "RemoveData"       -> RemoveData(st, a)
      [] ev = "RemoveKey"        -> RemoveKey(st, a)
      [] ev = "StripAnnotationIds" -> StripAnnotationIds(st)
      [] ev = "StripDataIds"     -> StripDataIds(st)
      [] ev = "ShrinkToFit"      -> Ok(st, 0)        \* a tuning operation: never changes an answer (C12)
      [] ev = "RoundTrip"        -> Ok(st, 0)        \* bounded model only; trace validation uses StamSerial!RoundTripOK
      [] OTHER                   -> Err(st)

MutatingEvents == {"AddResource", "AddDataset", "AddKey", "InsertData", "Annotate", "RemoveAnnotation",
                   "RemoveResource", "RemoveDataset", "RemoveData", "RemoveKey",
                   "StripAnnotationIds", "StripDataIds", "ShrinkToFit"}

InDomain(st, ev, a) == ev = "Annotate" /\ a.target.kind # "None" => TargetInDomain(st, a.target)

----------------------------------------------------------------------------
(* Derived relations: what the reverse lookups must answer (C01).          *)
(* All are over live annotations, ascending handle, each at most once.     *)

AnnText(st, x) == TextOfLeaves(st, st.anns[x].leaves)          \* seq of <<res, b, e>>
AscSeq(S) == SortedInts(S)

AnnsOnResText(st, r) == AscSeq({x \in LiveAnns(st) : \E i \in DOMAIN AnnText(st, x) : AnnText(st, x)[i][1] = r})
AnnsOnResMeta(st, r) == AscSeq({x \in LiveAnns(st) : HasLeaf(st.anns[x], LAMBDA l : l.k = "Res" /\ l.a = r)})
AnnsOnTsel(st, r, t) == AscSeq({x \in LiveAnns(st) : HasLeaf(st.anns[x], LAMBDA l : IsTextLeaf(l) /\ LeafRes(l) = r /\ l.b = t)})
AnnsOnAnn(st, y)     == AscSeq({x \in LiveAnns(st) : HasLeaf(st.anns[x], LAMBDA l : l.k \in {"Ann", "AnnText"} /\ l.a = y)})
AnnsUsingData(st, s, d) == AscSeq({x \in LiveAnns(st) : \E i \in DOMAIN st.anns[x].data : st.anns[x].data[i] = <<s, d>>})
AnnsOnData(st, s, d) == AscSeq({x \in LiveAnns(st) : HasLeaf(st.anns[x], LAMBDA l : l.k = "Data" /\ l.a = s /\ l.b = d)})
AnnsOnKey(st, s, k)  == AscSeq({x \in LiveAnns(st) : HasLeaf(st.anns[x], LAMBDA l : l.k = "Key" /\ l.a = s /\ l.b = k)})
AnnsOnSet(st, s)     == AscSeq({x \in LiveAnns(st) : HasLeaf(st.anns[x], LAMBDA l : l.k = "Set" /\ l.a = s)})
DataOfKey(st, s, k)  == AscSeq({d \in 1..Len(st.sets[s].data) : st.sets[s].data[d].alive /\ st.sets[s].data[d].key = k})
AnnsUsingKey(st, s, k) == AscSeq({x \in LiveAnns(st) : \E i \in DOMAIN st.anns[x].data :
                                    st.anns[x].data[i][1] = s /\ st.sets[s].data[st.anns[x].data[i][2]].key = k})
\* targets of an annotation: the annotations it points at, in leaf order
AnnTargets(st, x) == LET ls == SelectSeq(st.anns[x].leaves, LAMBDA l : l.k \in {"Ann", "AnnText"})
                     IN [i \in DOMAIN ls |-> ls[i].a]

\* the derived (exact) index
DerivedIx(st) ==
    LET A == LiveAnns(st)
        T(pred(_, _)) == UNION {{pred(x, i) : i \in DOMAIN st.anns[x].leaves} : x \in A} \ {<<0, 0, 0>>}
    IN [dda |-> AFromTriples(UNION {{<<st.anns[x].data[i][1], st.anns[x].data[i][2], x>> : i \in DOMAIN st.anns[x].data} : x \in A}),
        trm |-> AFromTriples(T(LAMBDA x, i : LET l == st.anns[x].leaves[i] IN IF IsTextLeaf(l) THEN <<LeafRes(l), l.b, x>> ELSE <<0, 0, 0>>)),
        ram |-> AFromTriples(T(LAMBDA x, i : LET l == st.anns[x].leaves[i] IN IF l.k = "Res" THEN <<l.a, 0, x>> ELSE <<0, 0, 0>>)),
        sam |-> AFromTriples(T(LAMBDA x, i : LET l == st.anns[x].leaves[i] IN IF l.k = "Set" THEN <<l.a, 0, x>> ELSE <<0, 0, 0>>)),
        aam |-> AFromTriples(T(LAMBDA x, i : LET l == st.anns[x].leaves[i] IN IF l.k \in {"Ann", "AnnText"} THEN <<l.a, 0, x>> ELSE <<0, 0, 0>>)),
        kam |-> AFromTriples(T(LAMBDA x, i : LET l == st.anns[x].leaves[i] IN IF l.k = "Key" THEN <<l.a, l.b, x>> ELSE <<0, 0, 0>>)),
        dam |-> AFromTriples(T(LAMBDA x, i : LET l == st.anns[x].leaves[i] IN IF l.k = "Data" THEN <<l.a, l.b, x>> ELSE <<0, 0, 0>>))]

\* position index of one resource, derived from its known selections:
\* entries <<pos, begin2end, end2begin>> for positions where a selection begins or ends
PosIndex(tsel) ==
    LET P == {tsel[i][1] : i \in DOMAIN tsel} \cup {tsel[i][2] : i \in DOMAIN tsel}
        ps == SortedInts(P)
        b2e(p) == LET idx == IdxSeq(Len(tsel), LAMBDA i : tsel[i][1] = p) IN [j \in DOMAIN idx |-> <<tsel[idx[j]][2], idx[j]>>]
        e2b(p) == LET idx == IdxSeq(Len(tsel), LAMBDA i : tsel[i][2] = p) IN [j \in DOMAIN idx |-> <<tsel[idx[j]][1], idx[j]>>]
    IN [j \in DOMAIN ps |-> <<ps[j], b2e(ps[j]), e2b(ps[j])>>]

----------------------------------------------------------------------------
(* Invariants                                                              *)

\* C01: every reverse index equals the relation derived from the forward references
IndexExact(st) == st.ix = DerivedIx(st)
\* C01: rows are chronological (ascending handles) and duplicate-free
IndexChronological(st) ==
    \A f \in {"dda", "trm", "ram", "sam", "aam", "kam", "dam"} :
        /\ ASorted(st.ix[f]) /\ ANoEmpty(st.ix[f])
        /\ \A i \in DOMAIN st.ix[f] : Ascending(st.ix[f][i][3])

KeyDataExact(st) ==
    \A s \in LiveSets(st) :
        st.sets[s].kdm = AFromTriples({<<st.sets[s].data[d].key, 0, d>> :
                                          d \in {d \in 1..Len(st.sets[s].data) : st.sets[s].data[d].alive}})

\* C02: nothing dangles
LeafLive(st, l) ==
    CASE l.k = "Text"    -> ResAlive(st, l.a) /\ l.b \in 1..Len(st.res[l.a].tsel)
      [] l.k = "Res"     -> ResAlive(st, l.a)
      [] l.k = "Ann"     -> AnnAlive(st, l.a)
      [] l.k = "AnnText" -> AnnAlive(st, l.a) /\ ResAlive(st, l.c) /\ l.b \in 1..Len(st.res[l.c].tsel)
      [] l.k = "Set"     -> SetAlive(st, l.a)
      [] l.k = "Key"     -> SetAlive(st, l.a) /\ KeyAlive(st.sets[l.a], l.b)
      [] l.k = "Data"    -> SetAlive(st, l.a) /\ DataAlive(st.sets[l.a], l.b)
      [] OTHER -> FALSE

NoDangling(st) ==
    /\ \A x \in LiveAnns(st) :
         /\ st.anns[x].leaves # <<>>
         /\ \A i \in DOMAIN st.anns[x].leaves : LeafLive(st, st.anns[x].leaves[i])
         /\ \A i \in DOMAIN st.anns[x].data :
              SetAlive(st, st.anns[x].data[i][1]) /\ DataAlive(st.sets[st.anns[x].data[i][1]], st.anns[x].data[i][2])
    /\ \A s \in LiveSets(st) : \A d \in 1..Len(st.sets[s].data) :
         st.sets[s].data[d].alive => KeyAlive(st.sets[s], st.sets[s].data[d].key)

\* C03: the id maps are exactly {<<id, h>> : h live, id(h) = id # ""}, ids unique per kind
IdMapOf(items) == {<<items[h].id, h>> : h \in {h \in DOMAIN items : items[h].alive /\ items[h].id # ""}}
IdsUnique(items) == \A h1, h2 \in DOMAIN items :
    (items[h1].alive /\ items[h2].alive /\ items[h1].id # "" /\ items[h1].id = items[h2].id) => h1 = h2
IdMapExact(st) ==
    /\ st.idm.res = IdMapOf(st.res) /\ IdsUnique(st.res)
    /\ st.idm.set = IdMapOf(st.sets) /\ IdsUnique(st.sets)
    /\ st.idm.ann = IdMapOf(st.anns) /\ IdsUnique(st.anns)
    /\ \A s \in LiveSets(st) :
         /\ st.sets[s].kidm = IdMapOf(st.sets[s].keys) /\ IdsUnique(st.sets[s].keys)
         /\ st.sets[s].didm = IdMapOf(st.sets[s].data) /\ IdsUnique(st.sets[s].data)

\* known text selections are distinct ranges inside the text
TselWF(st) ==
    \A r \in LiveRes(st) :
        /\ NoDup(st.res[r].tsel)
        /\ \A i \in DOMAIN st.res[r].tsel :
             LET be == st.res[r].tsel[i] IN 0 <= be[1] /\ be[1] <= be[2] /\ be[2] <= Len(st.res[r].text)

\* tombstones are canonical
TombsCanonical(st) ==
    /\ \A h \in DOMAIN st.res : ~st.res[h].alive => st.res[h] = TombRes
    /\ \A h \in DOMAIN st.sets : ~st.sets[h].alive => st.sets[h] = TombSet
    /\ \A h \in DOMAIN st.anns : ~st.anns[h].alive => st.anns[h] = TombAnn

StateOK(st) == /\ IndexExact(st) /\ IndexChronological(st) /\ KeyDataExact(st)
               /\ NoDangling(st) /\ IdMapExact(st) /\ TselWF(st) /\ TombsCanonical(st)
=============================================================================
