------------------------------ MODULE StamText ------------------------------
(* Texts as sequences of abstract characters (integer code 10*k + w, where *)
(* w is the UTF-8 byte width of the concrete character): codepoint/byte    *)
(* conversion (C12), plain-string search, split, trim (C07).               *)
EXTENDS StamBase

CharW(c) == c % 10

\* byte offset of codepoint position p (0..Len(t))
ByteOf(t, p) == SumSeq([i \in 1..p |-> CharW(t[i])])
ByteLen(t) == ByteOf(t, Len(t))

\* the positions whose byte offset is b (at most one since widths are >= 1)
IsBoundary(t, b) == \E p \in 0..Len(t) : ByteOf(t, p) = b
CharOf(t, b) == CHOOSE p \in 0..Len(t) : ByteOf(t, p) = b

\* C12: [ok, v] results
Utf8Byte(t, p) == IF p \in 0..Len(t) THEN [ok |-> TRUE, v |-> ByteOf(t, p)] ELSE [ok |-> FALSE, v |-> 0]
ByteToChar(t, b) == IF b >= 0 /\ IsBoundary(t, b) THEN [ok |-> TRUE, v |-> CharOf(t, b)] ELSE [ok |-> FALSE, v |-> 0]

\* the same inside the sub-range [cb, ce) of t: positions and bytes relative to the sub-range
Sub(t, cb, ce) == SubSeq(t, cb + 1, ce)

----------------------------------------------------------------------------
(* Laws checked by TLC on bounded instances (MC_Text)                       *)
TextsUpTo(n, Alphabet) == UNION {[1..k -> Alphabet] : k \in 0..n}

ByteLaws(n, Alphabet) ==
    \A t \in TextsUpTo(n, Alphabet) :
        /\ \A p \in 0..Len(t) : ByteToChar(t, ByteOf(t, p)) = [ok |-> TRUE, v |-> p]
        /\ \A b \in 0..ByteLen(t) : ByteToChar(t, b).ok => ByteOf(t, ByteToChar(t, b).v) = b
        /\ \A p \in 0..(Len(t) - 1) : ByteOf(t, p) < ByteOf(t, p + 1)
        /\ ~Utf8Byte(t, Len(t) + 1).ok /\ ~ByteToChar(t, ByteLen(t) + 1).ok

----------------------------------------------------------------------------
(* Plain-string operations (C07).  All return absolute ranges <<b, e>>      *)
(* inside the searched range [cb, ce).                                      *)

MatchAt(t, needle, p) == p + Len(needle) <= Len(t) /\ SubSeq(t, p + 1, p + Len(needle)) = needle

\* successive non-overlapping leftmost matches of needle in t[from..ce)
RECURSIVE FindFrom(_, _, _, _)
FindFrom(t, needle, from, ce) ==
    IF needle = <<>> \/ from + Len(needle) > ce THEN <<>>
    ELSE IF SubSeq(t, from + 1, from + Len(needle)) = needle
         THEN << <<from, from + Len(needle)>> >> \o FindFrom(t, needle, from + Len(needle), ce)
         ELSE FindFrom(t, needle, from + 1, ce)

FindAll(t, cb, ce, needle) == FindFrom(t, needle, cb, ce)

\* case folding of abstract characters: pairs (upper -> lower) of the concretisation table
Lower(c) == CASE c = 41 -> 11      \* 'A' -> 'a'
              [] c = 61 -> 21      \* 'B' -> 'b'
              [] c = 22 -> 12      \* 'É' -> 'é'
              [] OTHER -> c
LowerSeq(s) == [i \in DOMAIN s |-> Lower(s[i])]
\* characters whose lower-casing changes the number of codepoints are excluded from nocase searches
LowerStable(s) == \A i \in DOMAIN s : s[i] # 32

FindAllNoCase(t, cb, ce, needle) == FindFrom(LowerSeq(t), LowerSeq(needle), cb, ce)

\* Split on a delimiter: the pieces between successive matches (consecutive, covering [cb, ce) minus delimiters)
Split(t, cb, ce, delim) ==
    LET ms == FindAll(t, cb, ce, delim)
        n == Len(ms)
    IN [i \in 1..(n + 1) |-> <<IF i = 1 THEN cb ELSE ms[i - 1][2], IF i = n + 1 THEN ce ELSE ms[i][1]>>]

\* Trim characters in set C from both ends of [cb, ce)
Trim(t, cb, ce, C) ==
    LET notC == {p \in cb..(ce - 1) : t[p + 1] \notin C}
    IN IF notC = {} THEN <<ce, ce>>   \* nothing left: an empty selection (position unspecified, see ReadOK)
       ELSE <<CHOOSE p \in notC : \A q \in notC : p <= q, 1 + CHOOSE p \in notC : \A q \in notC : p >= q>>

\* Segmentation: cut [cb, ce) at every begin/end of a known selection strictly inside it
Segmentation(tsel, cb, ce) ==
    LET cuts == {cb, ce} \cup {p \in (cb + 1)..(ce - 1) : \E i \in DOMAIN tsel : tsel[i][1] = p \/ tsel[i][2] = p}
        cs == SortedInts(cuts)
    IN IF cb >= ce THEN <<>> ELSE [i \in 1..(Len(cs) - 1) |-> <<cs[i], cs[i + 1]>>]

\* partition law: consecutive, non-overlapping, covering
Partitions(pieces, cb, ce) ==
    pieces # <<>> => /\ pieces[1][1] = cb /\ pieces[Len(pieces)][2] = ce
                     /\ \A i \in 1..(Len(pieces) - 1) : pieces[i][2] = pieces[i + 1][1]
                     /\ \A i \in DOMAIN pieces : pieces[i][1] < pieces[i][2]
=============================================================================
