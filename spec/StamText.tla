------------------------------ MODULE StamText ------------------------------
(* Texts as sequences of abstract characters (integer code 10*k + w, where *)
(* w is the UTF-8 byte width of the concrete character): codepoint/byte    *)
(* conversion (C12), plain-string search, split, trim (C07).               *)
EXTENDS StamBase

CharW(c) == c % 10

\* byte offset of codepoint position p (0..Len(t))
ByteOf(t, p) == SumSeq([i \in 1..p |-> CharW(t[i])])
ByteLen(t) == ByteOf(t, Len(t))

\* the positions whose byte offset is b (at most one since widths are >= 1)
IsBoundary(t, b) == \E p \in 0..Len(t) : ByteOf(t, p) = b
CharOf(t, b) == CHOOSE p \in 0..Len(t) : ByteOf(t, p) = b

\* C12: [ok, v] results
Utf8Byte(t, p) == IF p \in 0..Len(t) THEN [ok |-> TRUE, v |-> ByteOf(t, p)] ELSE [ok |-> FALSE, v |-> 0]
ByteToChar(t, b) == IF b >= 0 /\ IsBoundary(t, b) THEN [ok |-> TRUE, v |-> CharOf(t, b)] ELSE [ok |-> FALSE, v |-> 0]

\* the same inside the sub-range [cb, ce) of t: positions and bytes relative to the sub-range
Sub(t, cb, ce) == SubSeq(t, cb + 1, ce)

----------------------------------------------------------------------------
(* Laws checked by TLC on bounded instances (MC_Text)                       *)
TextsUpTo(n, Alphabet) == UNION {[1..k -> Alphabet] : k \in 0..n}

ByteLaws(n, Alphabet) ==
    \A t \in TextsUpTo(n, Alphabet) :
        /\ \A p \in 0..Len(t) : ByteToChar(t, ByteOf(t, p)) = [ok |-> TRUE, v |-> p]
        /\ \A b \in 0..ByteLen(t) : ByteToChar(t, b).ok => ByteOf(t, ByteToChar(t, b).v) = b
        /\ \A p \in 0..(Len(t) - 1) : ByteOf(t, p) < ByteOf(t, p + 1)
        /\ ~Utf8Byte(t, Len(t) + 1).ok /\ ~ByteToChar(t, ByteLen(t) + 1).ok

----------------------------------------------------------------------------
(* Plain-string operations (C07).  All return absolute ranges <<b, e>>      *)
(* inside the searched range [cb, ce).                                      *)

MatchAt(t, needle, p) == p + Len(needle) <= Len(t) /\ SubSeq(t, p + 1, p + Len(needle)) = needle

\* successive non-overlapping leftmost matches of needle in t[from..ce)
RECURSIVE FindFrom(_, _, _, _)
FindFrom(t, needle, from, ce) ==
    IF needle = <<>> \/ from + Len(needle) > ce THEN <<>>
    ELSE IF SubSeq(t, from + 1, from + Len(needle)) = needle
         THEN << <<from, from + Len(needle)>> >> \o FindFrom(t, needle, from + Len(needle), ce)
         ELSE FindFrom(t, needle, from + 1, ce)

FindAll(t, cb, ce, needle) == FindFrom(t, needle, cb, ce)

\* case folding of abstract characters: Lower(c) is a *sequence* because lower-casing can change the number of
\* codepoints (32 = U+0130 lower-cases to 91 52 = 'i' + U+0307) and the number of bytes in either direction
Lower(c) == CASE c = 41 -> <<11>>      \* 'A' -> 'a'
              [] c = 61 -> <<21>>      \* 'B' -> 'b'
              [] c = 22 -> <<12>>      \* 'É' -> 'é'
              [] c = 32 -> <<91, 52>>
              [] c = 43 -> <<101>>     \* Kelvin sign (3 bytes) -> 'k' (1 byte): lower-casing can also shrink
              [] OTHER -> <<c>>
LowerSeq(s) == Flatten([i \in DOMAIN s |-> Lower(s[i])])

\* case-insensitive match of needle at original position p: the shortest k >= 1 such that the lower-cased
\* characters p+1..p+k equal the lower-cased needle (0 = no match)
NoCaseLenAt(t, needle, p, ce) ==
    LET K == {k \in 1..(ce - p) : LowerSeq(SubSeq(t, p + 1, p + k)) = LowerSeq(needle)}
    IN IF K = {} THEN 0 ELSE CHOOSE k \in K : \A j \in K : k <= j

RECURSIVE FindNoCaseFrom(_, _, _, _)
FindNoCaseFrom(t, needle, from, ce) ==
    IF needle = <<>> \/ from >= ce THEN <<>>
    ELSE LET k == NoCaseLenAt(t, needle, from, ce)
         IN IF k > 0 THEN << <<from, from + k>> >> \o FindNoCaseFrom(t, needle, from + k, ce)
            ELSE FindNoCaseFrom(t, needle, from + 1, ce)

FindAllNoCase(t, cb, ce, needle) == FindNoCaseFrom(t, needle, cb, ce)

----------------------------------------------------------------------------
(* Regular expressions, restricted to what is needed to exercise match, capture-group and offset translation: *)
(* a pattern is a sequence of groups [alts: seq of literals, cap: BOOLEAN, opt: BOOLEAN] with leftmost-first   *)
(* (Perl-like) semantics: alternatives in order, optional groups greedy.  The regex engine itself is trusted.  *)
RxFail == [ok |-> FALSE, e |-> 0, caps |-> <<>>, nums |-> <<>>]

\* capture group number of group gi = number of capturing groups among 1..gi
CapNum(groups, gi) == Cardinality({j \in 1..gi : groups[j].cap})

RECURSIVE RxFrom(_, _, _, _, _)
RxFrom(t, ce, pos, groups, gi) ==
    IF gi > Len(groups) THEN [ok |-> TRUE, e |-> pos, caps |-> <<>>, nums |-> <<>>]
    ELSE LET g == groups[gi]
             Try[ai \in 1..(Len(g.alts) + 1)] ==
                 IF ai > Len(g.alts)
                 THEN IF g.opt THEN RxFrom(t, ce, pos, groups, gi + 1) ELSE RxFail
                 ELSE LET alt == g.alts[ai]
                      IN IF pos + Len(alt) <= ce /\ SubSeq(t, pos + 1, pos + Len(alt)) = alt
                         THEN LET r == RxFrom(t, ce, pos + Len(alt), groups, gi + 1)
                              IN IF r.ok
                                 THEN [ok |-> TRUE, e |-> r.e,
                                       caps |-> (IF g.cap THEN << <<pos, pos + Len(alt)>> >> ELSE <<>>) \o r.caps,
                                       nums |-> (IF g.cap THEN <<CapNum(groups, gi)>> ELSE <<>>) \o r.nums]
                                 ELSE Try[ai + 1]
                         ELSE Try[ai + 1]
         IN Try[1]

\* successive non-overlapping leftmost matches in [from, ce): [ranges, groups]; a match of a pattern with capture
\* groups contributes the participating groups only, otherwise the whole match
RECURSIVE RxAllFrom(_, _, _, _)
RxAllFrom(t, from, ce, groups) ==
    IF from > ce THEN [ranges |-> <<>>, groups |-> <<>>]
    ELSE LET r == RxFrom(t, ce, from, groups, 1)
             hascap == \E j \in DOMAIN groups : groups[j].cap
         IN IF ~r.ok THEN RxAllFrom(t, from + 1, ce, groups)
            ELSE LET rest == RxAllFrom(t, IF r.e > from THEN r.e ELSE from + 1, ce, groups)
                 IN IF hascap THEN [ranges |-> r.caps \o rest.ranges, groups |-> r.nums \o rest.groups]
                    ELSE [ranges |-> << <<from, r.e>> >> \o rest.ranges, groups |-> rest.groups]

RegexAll(t, cb, ce, groups) == RxAllFrom(t, cb, ce, groups)

----------------------------------------------------------------------------
(* find_text_sequence: the fragments in the given order, each the first occurrence after the previous one,    *)
(* the text skipped before each fragment consisting of characters in Skip only.  [ok, ranges]                 *)
RECURSIVE SeqFrom(_, _, _, _, _, _)
SeqFrom(t, from, ce, frags, Skip, nocase) ==
    IF frags = <<>> THEN [ok |-> TRUE, ranges |-> <<>>]
    ELSE LET ms == IF nocase THEN FindNoCaseFrom(t, Head(frags), from, ce) ELSE FindFrom(t, Head(frags), from, ce)
         IN IF ms = <<>> THEN [ok |-> FALSE, ranges |-> <<>>]
            ELSE LET m == ms[1]
                 IN IF \E i \in (from + 1)..m[1] : t[i] \notin Skip THEN [ok |-> FALSE, ranges |-> <<>>]
                    ELSE LET r == SeqFrom(t, m[2], ce, Tail(frags), Skip, nocase)
                         IN IF r.ok THEN [ok |-> TRUE, ranges |-> <<m>> \o r.ranges] ELSE r

\* is `ranges` *a* valid sequence match (whatever search strategy produced it)?
SeqValid(t, cb, ce, frags, Skip, nocase, ranges) ==
    /\ Len(ranges) = Len(frags)
    /\ \A i \in DOMAIN ranges :
         LET m == ranges[i]
             prev == IF i = 1 THEN cb ELSE ranges[i - 1][2]
         IN /\ prev <= m[1] /\ m[1] <= m[2] /\ m[2] <= ce
            /\ (IF nocase THEN LowerSeq(SubSeq(t, m[1] + 1, m[2])) = LowerSeq(frags[i]) ELSE SubSeq(t, m[1] + 1, m[2]) = frags[i])
            /\ \A j \in (prev + 1)..m[1] : t[j] \in Skip

\* Split on a delimiter: the pieces between successive matches (consecutive, covering [cb, ce) minus delimiters)
Split(t, cb, ce, delim) ==
    LET ms == FindAll(t, cb, ce, delim)
        n == Len(ms)
    IN [i \in 1..(n + 1) |-> <<IF i = 1 THEN cb ELSE ms[i - 1][2], IF i = n + 1 THEN ce ELSE ms[i][1]>>]

\* Trim characters in set C from both ends of [cb, ce)
Trim(t, cb, ce, C) ==
    LET notC == {p \in cb..(ce - 1) : t[p + 1] \notin C}
    IN IF notC = {} THEN <<ce, ce>>   \* nothing left: an empty selection (position unspecified, see ReadOK)
       ELSE <<CHOOSE p \in notC : \A q \in notC : p <= q, 1 + CHOOSE p \in notC : \A q \in notC : p >= q>>

\* Segmentation: cut [cb, ce) at every begin/end of a known selection strictly inside it
Segmentation(tsel, cb, ce) ==
    LET cuts == {cb, ce} \cup {p \in (cb + 1)..(ce - 1) : \E i \in DOMAIN tsel : tsel[i][1] = p \/ tsel[i][2] = p}
        cs == SortedInts(cuts)
    IN IF cb >= ce THEN <<>> ELSE [i \in 1..(Len(cs) - 1) |-> <<cs[i], cs[i + 1]>>]

\* partition law: consecutive, non-overlapping, covering
Partitions(pieces, cb, ce) ==
    pieces # <<>> => /\ pieces[1][1] = cb /\ pieces[Len(pieces)][2] = ce
                     /\ \A i \in 1..(Len(pieces) - 1) : pieces[i][2] = pieces[i + 1][1]
                     /\ \A i \in DOMAIN pieces : pieces[i][1] < pieces[i][2]
=============================================================================
