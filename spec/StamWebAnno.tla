---------------------------- MODULE StamWebAnno ----------------------------
(* Web Annotation export (C17).  The exporter assembles JSON text; what the *)
(* property fixes is (a) the output is one well-formed JSON object, (b) its *)
(* target names the resources and absolute offsets of the annotation's text *)
(* selections, in order, plus the non-text items it targets, (c) its body   *)
(* carries each data value with the same content and JSON type.             *)
(* The harness parses the output (a parse failure is wf = FALSE) and maps   *)
(* IRIs back through the library's public iri() functions and values back   *)
(* through the concretisation table; TLC compares with WebAnnoExpected.     *)
(* a = [ann: ref, tmpl: BOOLEAN (extra target template), ns: BOOLEAN]       *)
EXTENDS StamStore

NoAnswer == [ok |-> FALSE, wf |-> FALSE, targets |-> <<>>, others |-> <<>>, extra |-> <<>>, body |-> <<>>]

\* non-text items named by the target: <<kind, a>> (an annotation without public id can only be named as null: a = 0)
OtherOf(st, l) ==
    CASE l.k = "Res" -> <<"Res", l.a>>
      [] l.k = "Set" -> <<"Set", l.a>>
      [] OTHER -> <<"Ann", IF st.anns[l.a].id = "" THEN 0 ELSE l.a>>

WebAnnoExpected(st, a) ==
    LET x == ResolveAnn(st, a.ann)
    IN IF x = 0 THEN NoAnswer
       ELSE LET ann == st.anns[x]
                simple == ann.kind = "Simple"
            IN IF simple /\ ann.leaves[1].k \in {"Key", "Data"} THEN NoAnswer        \* documented: not exportable
               ELSE LET tx == AnnText(st, x)
                        nontext == SelectSeq(ann.leaves, LAMBDA l : l.k \in {"Res", "Set", "Ann"})
                    IN [ok |-> TRUE, wf |-> TRUE,
                        targets |-> tx,
                        others |-> [i \in DOMAIN nontext |-> OtherOf(st, nontext[i])],
                        extra |-> IF a.tmpl THEN tx ELSE <<>>,
                        body |-> [i \in DOMAIN ann.data |->
                                    [set |-> ann.data[i][1], key |-> st.sets[ann.data[i][1]].data[ann.data[i][2]].key,
                                     val |-> st.sets[ann.data[i][1]].data[ann.data[i][2]].val]]]

\* the order of the text targets is part of the statement; the other named items are compared as a set
BagOf(s) == [e \in Range(s) |-> Cardinality({i \in DOMAIN s : s[i] = e})]
WebAnnoMatches(exp, got) ==
    /\ got.ok = exp.ok /\ got.wf = exp.wf
    /\ got.targets = exp.targets /\ got.extra = exp.extra
    /\ Range(got.others) = Range(exp.others)   \* which non-text items are named (a repeated mention is not an error)
    \* a JSON object has no member order; an annotation that lists the same data item twice has the same body
    /\ Range(got.body) = Range(exp.body)
=============================================================================
