------------------------------ MODULE StamRead ------------------------------
(* Read-only events: questions asked of a store in a given specification    *)
(* state and the answers the specification requires (C03 C04 C06 C07 C12    *)
(* C13).  ReadExpected(st, ev, a) returns the record the harness must have  *)
(* logged in `api` (always the same shape per event kind).                  *)
EXTENDS StamStore, StamText, StamRelations

Res0 == [ok |-> FALSE, v |-> 0]

\* container of a read: a resource as a whole, one of its known/arbitrary ranges, or an annotation's single text
\* c = [on |-> "res" | "range" | "ann", res: ref, b, e, ann: ref]
ContainerOK(st, c) ==
    CASE c.on = "res"   -> ResolveRes(st, c.res) # 0
      [] c.on = "range" -> LET r == ResolveRes(st, c.res) IN r # 0 /\ 0 <= c.b /\ c.b <= c.e /\ c.e <= Len(st.res[r].text)
      [] c.on = "ann"   -> LET x == ResolveAnn(st, c.ann) IN x # 0 /\ HasSingleText(st.anns[x])
      [] OTHER -> FALSE

\* <<res, cb, ce>>
ContainerRange(st, c) ==
    CASE c.on = "res"   -> LET r == ResolveRes(st, c.res) IN <<r, 0, Len(st.res[r].text)>>
      [] c.on = "range" -> <<ResolveRes(st, c.res), c.b, c.e>>
      [] OTHER          -> LET x == ResolveAnn(st, c.ann)
                               lf == st.anns[x].leaves[1]
                           IN <<LeafRes(lf), LeafRange(st, lf)[1], LeafRange(st, lf)[2]>>

----------------------------------------------------------------------------
(* C04: text selection by offset inside a container; a = [c, off]           *)
(*      answer: [ok, b, e, text]  (absolute range and the codepoints)       *)
\* (tbook, tbo: the same question asked through text_by_offset, which returns the text without a selection)
TextSelExpected(st, a) ==
    IF ~ContainerOK(st, a.c) THEN [ok |-> FALSE, b |-> 0, e |-> 0, text |-> <<>>, tbook |-> FALSE, tbo |-> <<>>]
    ELSE LET cr == ContainerRange(st, a.c)
         IN IF ~OffValid(cr[3] - cr[2], a.off) THEN [ok |-> FALSE, b |-> 0, e |-> 0, text |-> <<>>, tbook |-> FALSE, tbo |-> <<>>]
            ELSE LET be == ResolveIn(cr[2], cr[3], a.off)
                     txt == SubSeq(st.res[cr[1]].text, be[1] + 1, be[2])
                 IN [ok |-> TRUE, b |-> be[1], e |-> be[2], text |-> txt, tbook |-> TRUE, tbo |-> txt]

(* C04: the text of an annotation: a = [ann: ref]; answer [ok, texts: seq of codepoint seqs, ranges] *)
AnnTextExpected(st, a) ==
    LET x == ResolveAnn(st, a.ann)
    IN IF x = 0 THEN [ok |-> FALSE, texts |-> <<>>, ranges |-> <<>>]
       ELSE LET tx == AnnText(st, x)
            IN [ok |-> TRUE,
                texts |-> [i \in DOMAIN tx |-> SubSeq(st.res[tx[i][1]].text, tx[i][2] + 1, tx[i][3])],
                ranges |-> tx]

(* C04: the offset an annotation's (simple, text) target reports in mode m: a = [ann: ref, m]      *)
(*      answer [ok, off]; the container is the resource, or the target annotation's text           *)
OffsetReportExpected(st, a) ==
    LET x == ResolveAnn(st, a.ann)
    IN IF x = 0 \/ ~HasSingleText(st.anns[x]) THEN [ok |-> FALSE, off |-> NoOffset]
       ELSE LET lf == st.anns[x].leaves[1]
                rng == LeafRange(st, lf)
                cont == IF lf.k = "Text" THEN <<0, Len(st.res[lf.a].text)>>
                        ELSE LET tl == st.anns[lf.a].leaves[1] IN LeafRange(st, tl)
            IN [ok |-> TRUE, off |-> Report(cont[1], cont[2], rng[1], rng[2], a.m)]

----------------------------------------------------------------------------
(* C12: a = [c, p]   answer [ok, v]                                          *)
\* (iok, iv: the same question asked through the other API form of a bound text selection: same answer)
BothForms(r) == [ok |-> r.ok, v |-> r.v, iok |-> r.ok, iv |-> r.v]
Utf8ByteExpected(st, a) ==
    IF ~ContainerOK(st, a.c) THEN BothForms(Res0)
    ELSE LET cr == ContainerRange(st, a.c) IN BothForms(Utf8Byte(Sub(st.res[cr[1]].text, cr[2], cr[3]), a.p))
ByteToCharExpected(st, a) ==
    IF ~ContainerOK(st, a.c) THEN BothForms(Res0)
    ELSE LET cr == ContainerRange(st, a.c) IN BothForms(ByteToChar(Sub(st.res[cr[1]].text, cr[2], cr[3]), a.p))

----------------------------------------------------------------------------
(* C07: a = [c, op, needle, pat, frags]  answer [ok, ranges, groups]         *)
(*   find / nocase / split: needle;  trim: needle is the set of characters;   *)
(*   regex: pat (see StamText);  sequence / sequence_nocase: frags, needle is  *)
(*   the set of characters that may be skipped;  segmentation: nothing         *)
TextOpAnswer(ok, ranges, groups) == [ok |-> ok, ranges |-> ranges, groups |-> groups]
TextOpExpected(st, a) ==
    IF ~ContainerOK(st, a.c) THEN TextOpAnswer(FALSE, <<>>, <<>>)
    ELSE LET cr == ContainerRange(st, a.c)
             t == st.res[cr[1]].text
         IN CASE a.op = "find"   -> TextOpAnswer(TRUE, FindAll(t, cr[2], cr[3], a.needle), <<>>)
              [] a.op = "nocase" -> TextOpAnswer(TRUE, FindAllNoCase(t, cr[2], cr[3], a.needle), <<>>)
              [] a.op = "split"  -> TextOpAnswer(TRUE, Split(t, cr[2], cr[3], a.needle), <<>>)
              [] a.op = "trim"   -> TextOpAnswer(TRUE, << Trim(t, cr[2], cr[3], Range(a.needle)) >>, <<>>)
              [] a.op = "segmentation" -> TextOpAnswer(TRUE, Segmentation(st.res[cr[1]].tsel, cr[2], cr[3]), <<>>)
              [] a.op = "regex"  -> LET r == RegexAll(t, cr[2], cr[3], a.pat) IN TextOpAnswer(TRUE, r.ranges, r.groups)
              [] a.op \in {"sequence", "sequence_nocase"} ->
                    LET r == SeqFrom(t, cr[2], cr[3], a.frags, Range(a.needle), a.op = "sequence_nocase")
                    IN TextOpAnswer(r.ok, r.ranges, <<>>)
              [] OTHER -> TextOpAnswer(FALSE, <<>>, <<>>)

----------------------------------------------------------------------------
(* C13: relation test between two sets of ranges of one resource            *)
(*      a = [res: ref, A: seq of ranges, B: seq of ranges, o: operator]     *)
(* Set semantics as documented on TextSelectionOperator:                     *)
(*   Equals:   both sets cover exactly the same selections                   *)
(*   Overlaps: each selection in A overlaps with a (all: every) selection in B *)
(*   Embeds:   all selections in B are embedded by a (all: every) selection in A *)
(*   Embedded: all selections in A are embedded by a (all: every) selection in B *)
(*   Before:   each selection in A comes before a (all: every) selection in B *)
(*   After:    each selection in A comes after a (all: every) selection in B  *)
(*   Precedes: each selection in A ends where a selection in B begins;        *)
(*             all: the rightmost of A ends where the leftmost of B begins    *)
(*   Succeeds: each selection in A begins where a selection in B ends;        *)
(*             all: the leftmost of A begins where the rightmost of B ends    *)
(*   SameBegin/SameEnd: each in A starts/ends where one in B does;            *)
(*             all: leftmost (rightmost) of A and of B coincide               *)
Leftmost(S) == CHOOSE r \in S : \A q \in S : B(r) < B(q) \/ (B(r) = B(q) /\ E(r) <= E(q))
Rightmost(S) == CHOOSE r \in S : \A q \in S : E(r) > E(q) \/ (E(r) = E(q) /\ B(r) >= B(q))

SetTestPos(o, SA, SB, text) ==
    LET T(a, b) == RTest(o, a, b, text)
    IN CASE o.op = "Equals" -> SA = SB
         [] o.op \in {"Overlaps", "Before", "After"} ->
              IF o.all THEN \A a \in SA : \A b \in SB : T(a, b) ELSE \A a \in SA : \E b \in SB : T(a, b)
         [] o.op = "Embeds" ->
              IF o.all THEN \A b \in SB : \A a \in SA : T(a, b) ELSE \A b \in SB : \E a \in SA : T(a, b)
         [] o.op = "Embedded" ->
              IF o.all THEN \A a \in SA : \A b \in SB : T(a, b) ELSE \A a \in SA : \E b \in SB : T(a, b)
         [] o.op = "Precedes" ->
              IF o.all THEN T(Rightmost(SA), Leftmost(SB)) ELSE \A a \in SA : \E b \in SB : T(a, b)
         [] o.op = "Succeeds" ->
              IF o.all THEN T(Leftmost(SA), Rightmost(SB)) ELSE \A a \in SA : \E b \in SB : T(a, b)
         [] o.op = "SameBegin" ->
              IF o.all THEN T(Leftmost(SA), Leftmost(SB)) ELSE \A a \in SA : \E b \in SB : T(a, b)
         [] o.op = "SameEnd" ->
              IF o.all THEN T(Rightmost(SA), Rightmost(SB)) ELSE \A a \in SA : \E b \in SB : T(a, b)
         [] OTHER -> FALSE

SetTest(o, SA, SB, text) == LET v == SetTestPos([o EXCEPT !.negate = FALSE], SA, SB, text) IN IF o.negate THEN ~v ELSE v

TestRelationExpected(st, a) ==
    LET r == ResolveRes(st, a.res)
    IN IF r = 0 \/ a.A = <<>> \/ a.B = <<>> THEN [ok |-> FALSE, v |-> FALSE]
       ELSE [ok |-> TRUE, v |-> SetTest(a.o, Range(a.A), Range(a.B), st.res[r].text)]

(* C13, table form: one reference set A against a sequence of sets Bs: a = [res, A, Bs, o]; answer [ok, v] where   *)
(* v[i] is "T" or "F" (the harness logs "P" for a panic in that cell, which no expectation contains)            *)
TestRelationRowExpected(st, a) ==
    LET r == ResolveRes(st, a.res)
    IN IF r = 0 \/ a.A = <<>> THEN [ok |-> FALSE, v |-> <<>>]
       ELSE [ok |-> TRUE,
             v |-> [i \in DOMAIN a.Bs |-> IF SetTest(a.o, Range(a.A), Range(a.Bs[i]), st.res[r].text) THEN "T" ELSE "F"]]

(* C06: related text: the known selections of the resource in relation o with the reference set   *)
(*      a = [res: ref, A: seq of ranges (the reference), o]                                        *)
(*      answer: the known selections t (as ranges, textual order, each once) with                  *)
(*              Test(o, reference, {t}); the reference selections themselves are only returned      *)
(*              by Equals.                                                                         *)
RangeLess(x, y) == B(x) < B(y) \/ (B(x) = B(y) /\ E(x) < E(y))
SortRanges(S) ==
    LET RECURSIVE Srt(_)
        Srt(T) == IF T = {} THEN <<>>
                  ELSE LET m == CHOOSE x \in T : \A y \in T : x = y \/ RangeLess(x, y) IN <<m>> \o Srt(T \ {m})
    IN Srt(S)

RelatedTextExpected(st, a) ==
    LET r == ResolveRes(st, a.res)
    IN IF r = 0 \/ a.A = <<>> THEN [ok |-> FALSE, ranges |-> <<>>]
       ELSE LET known == Range(st.res[r].tsel)
                ref == Range(a.A)
                hits == {t \in known : SetTest(a.o, ref, {t}, st.res[r].text)}
                \* "only the equality relation also returns the reference selection itself": for a reference of several
                \* selections that is the reference's own selections, provided all of them are known
                res == IF a.o.op = "Equals" /\ ~a.o.negate
                       THEN IF Cardinality(ref) = 1 THEN hits ELSE IF ref \subseteq known THEN ref ELSE {}
                       ELSE hits \ ref
            IN [ok |-> TRUE, ranges |-> SortRanges(res)]

(* C06, table form: one reference against a sequence of operators: a = [res, via, A, ann, os]                     *)
(*   via = "sel": the reference is the set of ranges A (a single selection, bound or not, or a set)               *)
(*   via = "ann": the reference is the text of annotation `ann` (all on resource res)                             *)
RelatedRowRef(st, a) ==
    IF a.via = "ann"
    THEN LET x == ResolveAnn(st, a.ann)
         IN IF x = 0 THEN <<>> ELSE LET tx == AnnText(st, x) IN [i \in DOMAIN tx |-> <<tx[i][2], tx[i][3]>>]
    ELSE a.A

RelatedRowExpected(st, a) ==
    LET r == ResolveRes(st, a.res)
        ref == RelatedRowRef(st, a)
    IN IF r = 0 \/ ref = <<>> THEN [ok |-> FALSE, rows |-> <<>>]
       ELSE [ok |-> TRUE,
             rows |-> [i \in DOMAIN a.os |-> RelatedTextExpected(st, [res |-> a.res, A |-> ref, o |-> a.os[i]]).ranges]]

----------------------------------------------------------------------------
ReadExpected(st, ev, a) ==
    CASE ev = "TextSel"      -> TextSelExpected(st, a)
      [] ev = "AnnTextOf"    -> AnnTextExpected(st, a)
      [] ev = "OffsetReport" -> OffsetReportExpected(st, a)
      [] ev = "Utf8Byte"     -> Utf8ByteExpected(st, a)
      [] ev = "ByteToChar"   -> ByteToCharExpected(st, a)
      [] ev = "TextOp"       -> TextOpExpected(st, a)
      [] ev = "TestRelation" -> TestRelationExpected(st, a)
      [] ev = "RelatedText"  -> RelatedTextExpected(st, a)
      [] ev = "TestRelationRow" -> TestRelationRowExpected(st, a)
      [] ev = "RelatedRow"   -> RelatedRowExpected(st, a)
      [] OTHER -> [ok |-> FALSE, unknown |-> ev]

\* how an answer is compared with the expectation (equality, except where the specification leaves a detail open)
ReadMatches(st, ev, a, exp, got) ==
    IF ev = "TextOp" /\ a.op = "trim" /\ exp.ok /\ exp.ranges[1][1] = exp.ranges[1][2]
    THEN \* everything trimmed away: any empty selection inside the container is acceptable
         got.ok /\ Len(got.ranges) = 1 /\ got.ranges[1][1] = got.ranges[1][2]
    ELSE IF ev = "TextOp" /\ a.op \in {"sequence", "sequence_nocase"} /\ ContainerOK(st, a.c)
    THEN \* the documentation does not fix the search strategy: a reported match must be a valid one, and "no match"
         \* is only acceptable when the first-occurrence strategy finds none
         LET cr == ContainerRange(st, a.c)
         IN IF got.ok THEN SeqValid(st.res[cr[1]].text, cr[2], cr[3], a.frags, Range(a.needle), a.op = "sequence_nocase", got.ranges)
            ELSE ~exp.ok
    ELSE IF ev = "RelatedText"
    THEN \* C06 promises the exact set, each selection once; the order of the results is not part of the statement
         got.ok = exp.ok /\ NoDup(got.ranges) /\ Range(got.ranges) = Range(exp.ranges)
    ELSE IF ev = "RelatedRow"
    THEN /\ got.ok = exp.ok /\ Len(got.rows) = Len(exp.rows)
         /\ \A i \in DOMAIN exp.rows :
              /\ NoDup(got.rows[i])
              /\ \/ Range(got.rows[i]) = Range(exp.rows[i])
                 \* Equals from a reference of several selections of which some are not known: the statement does not
                 \* say whether the known part of the reference is returned
                 \/ /\ a.os[i].op = "Equals" /\ ~a.os[i].negate /\ a.via = "sel" /\ Len(a.A) > 1
                    /\ Range(got.rows[i]) \subseteq Range(a.A)
    ELSE got = exp

ReadEvents == {"TextSel", "AnnTextOf", "OffsetReport", "Utf8Byte", "ByteToChar", "TextOp", "TestRelation", "RelatedText",
               "TestRelationRow", "RelatedRow"}
=============================================================================
