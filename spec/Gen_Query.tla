------------------------------ MODULE Gen_Query ------------------------------
(* Generator for C09: the STAMQL grammar as a menu of ASTs, the canonical    *)
(* printer (StamQuery!PrintQ), and token-level mutations.  Every state is a   *)
(* family of cases; the invariant Emit prints one behaviour per family        *)
(* (a sequence of Parse events) for the conformance harness.                  *)
EXTENDS StamQuery, Json, SequencesExt

CONSTANTS Depth         \* 1: no sub-queries; 2: one level; 3: two levels

VARIABLE fam
vars == <<fam>>

BB == BOOLEAN
StrV(s) == [t |-> "str", s |-> s, n |-> 0, l |-> <<>>]
IntV(n) == [t |-> "int", s |-> "", n |-> n, l |-> <<>>]
TV(t, n) == [t |-> t, s |-> "", n |-> n, l |-> <<>>]

\* ("= any" is deliberately printed as the key-only form DATA set key; it is not part of the menu)
OpVals == {<<"=", StrV("v1")>>, <<"=", IntV(5)>>, <<"=", IntV(-5)>>, <<"=", TV("float", 3)>>, <<"=", TV("float", 2)>>, <<">", TV("float", -4)>>,
           \* (|n| >= 1000000 stands for the whole number 10^(|n| - 1000000): floats beyond the range of 64-bit integers)
           <<"=", TV("float", 1000019)>>, <<"<=", TV("float", -1000020)>>, <<">", TV("float", 1000015)>>, <<"=", TV("bool", 1)>>, <<"=", TV("bool", 0)>>,
           <<"=", TV("null", 0)>>, <<"!=", StrV("v1")>>, <<"!=", IntV(5)>>, <<"!=", TV("float", 3)>>,
           <<">", IntV(5)>>, <<">=", IntV(5)>>, <<"<", IntV(5)>>, <<"<=", IntV(-5)>>, <<">", TV("float", 3)>>, <<"<=", TV("float", 3)>>,
           <<"=", TV("datetime", 61)>>, <<">", TV("datetime", 61)>>, <<"<=", TV("datetime", 61)>>}
RelKws == {"EQUALS", "EMBEDS", "EMBEDDED", "OVERLAPS", "PRECEDES", "SUCCEEDS", "SAMEBEGIN", "SAMEEND", "BEFORE", "AFTER"}
Offs == {Off("B", 0, "B", 2), Off("B", 1, "E", 0), Off("E", -2, "E", -1)}

Simple ==
    {CId("a1")}
    \cup {CAnn("a1", q, r) : q \in BB, r \in BB} \cup {CAnnVar("x", q, r) : q \in BB, r \in BB}
    \cup {CRes("r1", q) : q \in BB} \cup {CResVar("x", q) : q \in BB}
    \cup {CSet("s1", q) : q \in BB} \cup {CSetVar("x", q) : q \in BB}
    \cup {CKey("s1", "k1", q) : q \in BB}
    \cup {CKeyVal("s1", "k1", ov[1], ov[2], q) : ov \in OpVals, q \in BB}
    \cup {CDataVar("x", q) : q \in BB} \cup {CKeyVar("x", q) : q \in BB}
    \cup {CValue(ov[1], ov[2]) : ov \in OpVals}
    \cup {CText(<<11, 21>>, n) : n \in BB} \cup {CText(<<12, 31, 14>>, FALSE), CTextVar("x")}
    \cup {CRelation("x", kw) : kw \in RelKws}
    \cup {CLimit(b, e) : b \in {-2, 0, 3}, e \in {-2, 0, 3}}
    \cup {WithOff(CRes("r1", FALSE), o) : o \in Offs} \cup {WithOff(CAnn("a1", FALSE, FALSE), o) : o \in Offs}
    \cup {WithOff(CResVar("x", FALSE), Off("B", 0, "B", 2))}

Unions == {CUnion(<<CKeyVal("s1", "k1", "=", StrV("v1"), FALSE), CKeyVal("s1", "k2", "=", IntV(5), FALSE)>>),
           CUnion(<<CRes("r1", FALSE), CRes("r2", FALSE), CRes("r3", TRUE)>>),
           CUnion(<<CText(<<11>>, FALSE), CText(<<21>>, TRUE)>>),
           CUnion(<<CId("a1"), CAnn("a2", FALSE, FALSE)>>),
           CUnion(<<CKey("s1", "k1", FALSE)>>)}

Constraints == Simple \cup Unions
RTs == {"ANNOTATION", "DATA", "KEY", "TEXT", "RESOURCE", "DATASET"}

\* a few fixed pairs / triples of constraints (order matters to the printer)
Pairs == {<<CKey("s1", "k1", FALSE), CText(<<11, 21>>, FALSE)>>, <<CRes("r1", FALSE), CKeyVal("s1", "k1", "=", StrV("v1"), FALSE)>>,
          <<CKeyVal("s1", "k1", ">", IntV(5), FALSE), CLimit(0, 3)>>, <<CRelation("x", "EMBEDS"), CKey("s1", "k1", TRUE)>>,
          <<CUnion(<<CId("a1"), CId("a2")>>), CLimit(-2, 0)>>, <<CAnnVar("x", FALSE, TRUE), CRes("r1", TRUE), CText(<<11>>, TRUE)>>}

Sub1 == {Q("SELECT", "ANNOTATION", "y", <<CTextVar("x")>>, <<>>), Q("SELECT", "TEXT", "y", <<CRelation("x", "EMBEDS"), CKey("s1", "k1", FALSE)>>, <<>>),
         Optional(Q("SELECT", "DATA", "y", <<CAnnVar("x", FALSE, FALSE)>>, <<>>)), Q("SELECT", "KEY", "", <<>>, <<>>)}
Sub2 == {Q("SELECT", "TEXT", "y", <<CResVar("x", FALSE)>>, <<Q("SELECT", "ANNOTATION", "z", <<CTextVar("y")>>, <<>>)>>)}

Queries(rt) ==
    {Q("SELECT", rt, n, <<>>, <<>>) : n \in {"", "x"}}
    \cup {Q("SELECT", rt, n, <<c>>, <<>>) : n \in {"", "x"}, c \in Constraints}
    \cup {Q("SELECT", rt, "x", p, <<>>) : p \in Pairs}
    \cup (IF Depth >= 2
          THEN {Q("SELECT", rt, "x", <<c>>, <<s>>) : c \in {CKey("s1", "k1", FALSE), CRes("r1", FALSE)}, s \in Sub1}
               \cup {Q("SELECT", rt, "x", <<>>, <<s1, s2>>) : s1 \in Sub1, s2 \in Sub1}
          ELSE {})
    \cup (IF Depth >= 3 THEN {Q("SELECT", rt, "x", <<CKey("s1", "k1", FALSE)>>, <<s>>) : s \in Sub2} ELSE {})

Ev(toks, ast, mutated, built) == [ev |-> "Parse", a |-> [toks |-> toks, ast |-> ast, mutated |-> mutated, built |-> built]]

\* token mutations of one query: truncations, deletions, duplications, junk in every position
Junk == {"-", "99999999999999999999", "-99999999999999999999", "1.5.5", "\"", "é", "SELECT", "ADD", "DELETE", "WHERE", "{", "}", "[", "]", ";", "|",
         "?", "AS", "@a", "OR", "OFFSET", "LIMIT", "null", "-0", "İ?", "?é"}
Mutants(toks) ==
    {SubSeq(toks, 1, k) : k \in 0..(Len(toks) - 1)}
    \cup {SubSeq(toks, 1, k - 1) \o SubSeq(toks, k + 1, Len(toks)) : k \in 1..Len(toks)}
    \cup {SubSeq(toks, 1, k) \o SubSeq(toks, k, Len(toks)) : k \in 1..Len(toks)}
    \cup {SubSeq(toks, 1, k - 1) \o <<Tok("raw", j)>> \o SubSeq(toks, k + 1, Len(toks)) : k \in 1..Len(toks), j \in Junk}
    \cup {SubSeq(toks, 1, k) \o <<Tok("raw", j)>> \o SubSeq(toks, k + 1, Len(toks)) : k \in 0..Len(toks), j \in {"-", "\"", "99999999999999999999", "é"}}

\* hand-written inputs outside the SELECT grammar: only totality (and the self fixpoint of what is accepted) is checked
Raw(s) == <<Tok("raw", s)>>
Extra == {Raw(""), Raw(" "), Raw("SELECT"), Raw("ADD"), Raw("DELETE"), Raw("SELECT "), Raw("ADD "), Raw("DELETE "), Raw("SELECTX"), Raw("SELECT ANNOTATION"),
          Raw("ADD ANNOTATION"), Raw("DELETE ANNOTATION"), Raw("ADD ANNOTATION ?x WITH"), Raw("ADD ANNOTATION ?x WITH ID \"a9\";"),
          Raw("ADD ANNOTATION ?x WITH DATA \"s1\" \"k1\" \"v\";"), Raw("ADD ANNOTATION ?x WITH DATA \"s1\" \"k1\" 99999999999999999999;"),
          Raw("ADD ANNOTATION ?x WITH TARGET ?y; { SELECT TEXT ?y WHERE TEXT \"a\"; }"),
          Raw("ADD ANNOTATION ?x WITH TARGET ?y OFFSET 0 -0; DATA \"s1\" \"k1\" 1.5; { SELECT RESOURCE ?y }"),
          Raw("DELETE ANNOTATION ?x { SELECT ANNOTATION ?x WHERE DATA \"s1\" \"k1\"; }"), Raw("DELETE ANNOTATION ?x"),
          Raw("@attr SELECT TEXT ?x"), Raw("@attr"), Raw("SELECT TEXT ?x WHERE @a TEXT \"a\";"), Raw("SELECT TEXT ?"), Raw("SELECT TEXT ?é WHERE TEXT ?é;"),
          Raw("SELECT TEXT WHERE TEXT \"\\\"\";"), Raw("SELECT TEXT WHERE TEXT \"\\\\\";"), Raw("SELECT TEXT WHERE TEXT AS REGEX \"(\";"),
          Raw("SELECT TEXT WHERE TEXT AS REGEX \"a+\";"), Raw("SELECT DATA WHERE DATA \"s\" \"k\" = a|b|1|2.5;"), Raw("SELECT DATA WHERE DATA \"s\" \"k\" = \"a|b\";"),
          Raw("SELECT DATA WHERE VALUE = ;"), Raw("SELECT ANNOTATION WHERE SUBSTORE NONE;"), Raw("SELECT ANNOTATION WHERE SUBSTORE \"x\";"),
          Raw("select annotation"), Raw("SELECT annotation ?x WHERE ID \"a\";"), Raw("SELECT OPTIONAL TEXT"), Raw("SELECT  TEXT\n?x\tWHERE\nTEXT \"a\" ;")}

Families == {<<"grammar", rt>> : rt \in RTs} \cup {<<"built", rt>> : rt \in RTs} \cup {<<"mutants", rt>> : rt \in RTs} \cup {<<"extra", "">>}

MutationSeeds(rt) == {Q("SELECT", rt, "x", <<c>>, <<>>) : c \in {CKeyVal("s1", "k1", ">=", IntV(5), TRUE), CLimit(-2, 3), CText(<<11, 21>>, TRUE),
                                                                     WithOff(CAnn("a1", TRUE, TRUE), Off("B", 1, "E", 0)), CRelation("x", "EMBEDS"),
                                                                     CUnion(<<CId("a1"), CKey("s1", "k1", FALSE)>>)}}
                     \cup {Q("SELECT", rt, "x", <<CKey("s1", "k1", FALSE)>>, <<s>>) : s \in Sub1}

EventsOf(f) ==
    CASE f[1] = "grammar" -> {Ev(PrintQ(q), q, FALSE, FALSE) : q \in Queries(f[2])}
      [] f[1] = "built"   -> {Ev(<<>>, q, FALSE, TRUE) : q \in Queries(f[2])}
      [] f[1] = "mutants" -> UNION {{Ev(m, EmptyQ, TRUE, FALSE) : m \in Mutants(PrintQ(q))} : q \in MutationSeeds(f[2])}
      [] OTHER            -> {Ev(x, EmptyQ, TRUE, FALSE) : x \in Extra}

Init == fam \in Families
Next == UNCHANGED fam
Spec == Init /\ [][Next]_vars

Emit == PrintT(<<"REPLAY", ToJson(SetToSeq(EventsOf(fam)))>>)
=============================================================================
