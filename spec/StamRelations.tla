--------------------------- MODULE StamRelations ---------------------------
(* The text-selection relation operators (C13) and related-text search     *)
(* (C06).  Ranges are <<b, e>> with b <= e over codepoints of one resource. *)
(* Definitions follow the doc comments of TextSelectionOperator in         *)
(* src/textselection.rs.                                                    *)
(*                                                                         *)
(* An operator is [op, all, negate, ws, limit]:                             *)
(*   op in Equals Overlaps Embeds Embedded Before After Precedes Succeeds   *)
(*         SameBegin SameEnd InSet SameRange                                *)
(*   all:    every member of A must be in the relation with every member    *)
(*           of B (otherwise: some member of A with some/all member of B,   *)
(*           as documented per operator)                                    *)
(*   negate: logical complement of the result                               *)
(*   ws:     (Precedes/Succeeds) intervening whitespace is allowed          *)
(*   limit:  (Before/After) maximal distance between the two selections;    *)
(*           (Embedded) "constrains the lookup range": the embedding        *)
(*           selection may start at most `limit` before and end at most      *)
(*           `limit` after the embedded one; 0 = unlimited.  The limit is     *)
(*           part of the pairwise relation; it is only specified where the   *)
(*           left-hand side is a single selection.                           *)
EXTENDS StamBase

B(r) == r[1]
E(r) == r[2]

\* --- range vs range (interval arithmetic) ---
REquals(a, b)    == B(a) = B(b) /\ E(a) = E(b)
ROverlaps(a, b)  == (B(b) >= B(a) /\ B(b) < E(a)) \/ (E(b) > B(a) /\ E(b) <= E(a))
                    \/ (B(b) <= B(a) /\ E(b) >= E(a)) \/ (B(a) <= B(b) /\ E(a) >= E(b))
REmbeds(a, b)    == B(b) >= B(a) /\ E(b) <= E(a)          \* a embeds b
REmbedded(a, b)  == REmbeds(b, a)
RBefore(a, b)    == E(a) <= B(b)                           \* a comes before b
RAfter(a, b)     == B(a) >= E(b)
RSameBegin(a, b) == B(a) = B(b)
RSameEnd(a, b)   == E(a) = E(b)

\* whitespace between positions p and q of the text (all characters are whitespace codes)
IsWs(c) == c \in {31, 81, 33}
AllWs(text, p, q) == \A i \in (p + 1)..q : IsWs(text[i])

RPrecedes(a, b, ws, text) == E(a) = B(b) \/ (ws /\ E(a) < B(b) /\ AllWs(text, E(a), B(b)))
RSucceeds(a, b, ws, text) == RPrecedes(b, a, ws, text)

Dist(a, b) == IF E(a) <= B(b) THEN B(b) - E(a) ELSE IF E(b) <= B(a) THEN B(a) - E(b) ELSE 0
WithinLimit(a, b, limit) == limit = 0 \/ Dist(a, b) <= limit

RTest(o, a, b, text) ==
    CASE o.op = "Equals"    -> REquals(a, b)
      [] o.op = "Overlaps"  -> ROverlaps(a, b)
      [] o.op = "Embeds"    -> REmbeds(a, b)
      [] o.op = "Embedded"  -> REmbedded(a, b) /\ (o.limit = 0 \/ (B(a) - B(b) <= o.limit /\ E(b) - E(a) <= o.limit))
      [] o.op = "Before"    -> RBefore(a, b) /\ WithinLimit(a, b, o.limit)
      [] o.op = "After"     -> RAfter(a, b) /\ WithinLimit(a, b, o.limit)
      [] o.op = "Precedes"  -> RPrecedes(a, b, o.ws, text)
      [] o.op = "Succeeds"  -> RSucceeds(a, b, o.ws, text)
      [] o.op = "SameBegin" -> RSameBegin(a, b)
      [] o.op = "SameEnd"   -> RSameEnd(a, b)
      [] OTHER -> FALSE

\* single range test with modifiers
Test1(o, a, b, text) == LET v == RTest(o, a, b, text) IN IF o.negate THEN ~v ELSE v

----------------------------------------------------------------------------
(* Laws of the algebra (C13), checked by TLC over all ranges up to a bound  *)
Ranges(n) == {<<b, e>> : b \in 0..n, e \in 0..n} \cap {r \in (0..n) \X (0..n) : r[1] <= r[2]}
Op(op) == [op |-> op, all |-> FALSE, negate |-> FALSE, ws |-> FALSE, limit |-> 0]
Neg(o) == [o EXCEPT !.negate = ~@]

RelationLaws(n, text) ==
    \A a \in Ranges(n), b \in Ranges(n) :
        /\ RTest(Op("Embeds"), a, b, text) <=> RTest(Op("Embedded"), b, a, text)
        /\ RTest(Op("Before"), a, b, text) <=> RTest(Op("After"), b, a, text)
        /\ RTest(Op("Precedes"), a, b, text) <=> RTest(Op("Succeeds"), b, a, text)
        /\ RTest(Op("Equals"), a, b, text) <=> RTest(Op("Equals"), b, a, text)
        /\ RTest(Op("Overlaps"), a, b, text) <=> RTest(Op("Overlaps"), b, a, text)
        /\ RTest(Op("Equals"), a, b, text) =>
             /\ RTest(Op("Embeds"), a, b, text) /\ RTest(Op("Embedded"), a, b, text)
             /\ RTest(Op("SameBegin"), a, b, text) /\ RTest(Op("SameEnd"), a, b, text)
        /\ \A op \in {"Equals", "Overlaps", "Embeds", "Embedded", "Before", "After", "Precedes", "Succeeds", "SameBegin", "SameEnd"} :
             Test1(Neg(Op(op)), a, b, text) = ~Test1(Op(op), a, b, text)
=============================================================================
