#!/bin/bash
# usage: sany.sh Module.tla ...   prints only errors
cd "$(dirname "$0")"
rc=0
for m in "$@"; do
  out=$(tla-sany "$m" 2>&1)
  if echo "$out" | grep -qE "\*\*\* Errors|Fatal|Could not|Parse Error|Lexical error|Encountered"; then
    echo "== $m"; echo "$out" | grep -vE "^Parsing file|^Semantic processing" ; rc=1
  fi
done
exit $rc
