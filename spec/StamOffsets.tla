---------------------------- MODULE StamOffsets ----------------------------
(* Cursors, offsets, their resolution against a text of a given length and *)
(* their reporting in the four alignment modes (property C04).             *)
(*                                                                         *)
(* A cursor is [k |-> "B" | "E", v |-> Int]: begin-aligned (v counts from  *)
(* the start) or end-aligned (v <= 0 counts back from the end).            *)
(* An offset is [has, bk, bv, ek, ev] (flat so that it maps 1:1 to JSON).  *)
(* Modes: 0 BeginBegin, 1 BeginEnd, 2 EndEnd, 3 EndBegin (the enum order   *)
(* of OffsetMode in src/selector.rs).                                      *)
EXTENDS StamBase

NoOffset == [has |-> FALSE, bk |-> "B", bv |-> 0, ek |-> "B", ev |-> 0]
Off(bk, bv, ek, ev) == [has |-> TRUE, bk |-> bk, bv |-> bv, ek |-> ek, ev |-> ev]
WholeOffset == Off("B", 0, "E", 0)

\* a well-formed cursor: begin-aligned >= 0, end-aligned <= 0
CursorWF(k, v) == IF k = "B" THEN v >= 0 ELSE v <= 0

\* absolute position (relative to the start of the container of length len)
AbsCursor(len, k, v) == IF k = "B" THEN v ELSE len + v

OffBegin(len, o) == AbsCursor(len, o.bk, o.bv)
OffEnd(len, o)   == AbsCursor(len, o.ek, o.ev)

\* C04: accepted exactly when it denotes 0 <= begin <= end <= len
OffValid(len, o) ==
    /\ o.has
    /\ CursorWF(o.bk, o.bv) /\ CursorWF(o.ek, o.ev)
    /\ LET b == OffBegin(len, o)  e == OffEnd(len, o)
       IN 0 <= b /\ b <= e /\ e <= len

ModeOf(o) == CASE o.bk = "B" /\ o.ek = "B" -> 0
               [] o.bk = "B" /\ o.ek = "E" -> 1
               [] o.bk = "E" /\ o.ek = "E" -> 2
               [] OTHER -> 3

\* Resolution of an offset inside a container [cb, ce) of a resource: absolute <<b, e>>
ResolveIn(cb, ce, o) == <<cb + OffBegin(ce - cb, o), cb + OffEnd(ce - cb, o)>>

\* Reporting the absolute range [b, e) relative to the container [cb, ce) in mode m
Report(cb, ce, b, e, m) ==
    LET len == ce - cb
        rb == b - cb
        re == e - cb
    IN CASE m = 0 -> Off("B", rb, "B", re)
         [] m = 1 -> Off("B", rb, "E", re - len)
         [] m = 2 -> Off("E", rb - len, "E", re - len)
         [] OTHER -> Off("E", rb - len, "B", re)

OffsetWF(o) == o.has /\ CursorWF(o.bk, o.bv) /\ CursorWF(o.ek, o.ev)

----------------------------------------------------------------------------
(* Laws (checked exhaustively by TLC over a bounded instance, see          *)
(* MC_Offsets): every report is well-formed and re-resolves to the same    *)
(* absolute range in all four modes; validity is exactly range membership. *)

ReportLaw(maxlen) ==
    \A cb \in 0..maxlen : \A ce \in cb..maxlen :
      \A b \in cb..ce : \A e \in b..ce : \A m \in 0..3 :
        LET o == Report(cb, ce, b, e, m)
        IN /\ OffsetWF(o)
           /\ OffValid(ce - cb, o)
           /\ ModeOf(o) = m
           /\ ResolveIn(cb, ce, o) = <<b, e>>

ValidLaw(maxlen, maxcur) ==
    \A len \in 0..maxlen :
      \A bk \in {"B", "E"} : \A ek \in {"B", "E"} :
        \A bv \in (-maxcur)..maxcur : \A ev \in (-maxcur)..maxcur :
          LET o == Off(bk, bv, ek, ev)
          IN OffValid(len, o) <=>
               /\ (bk = "B" => bv >= 0) /\ (bk = "E" => bv <= 0)
               /\ (ek = "B" => ev >= 0) /\ (ek = "E" => ev <= 0)
               /\ 0 <= OffBegin(len, o) /\ OffBegin(len, o) <= OffEnd(len, o) /\ OffEnd(len, o) <= len
=============================================================================
